#!/usr/bin/env python3
"""tools/seed_matrix_wt.py <out.json> [name-or-ID ...] : like seed_matrix.py but applies each seeded change to a scratch git worktree of
/repo's HEAD (removed at the end) and points the check at it with VERIF_REPO_SRC, so /repo itself stays untouched and usable meanwhile.
Used for exploration; the matrix recorded in seeded/MATRIX.json comes from seed_matrix.py (patch applied to /repo itself)."""
import glob, json, os, re, subprocess, sys, tempfile, time
os.chdir("/verif")
outf = sys.argv[1]
want = set(sys.argv[2:])
wt = tempfile.mkdtemp(prefix="mxwt-", dir="/tmp")
os.rmdir(wt)
subprocess.run(["git", "-C", "/repo", "worktree", "add", "-q", "--detach", wt, "HEAD"], check=True)
matrix = json.load(open(outf)) if os.path.exists(outf) else {}
try:
    for d in sorted(glob.glob("seeded/C*-m*")):
        name = os.path.basename(d); pid = name.split("-")[0]
        if want and pid not in want and name not in want and not any(name.endswith(w) for w in want if w.startswith("-")):
            continue
        meta = json.load(open(d + "/meta.json"))
        if str(meta.get("status", "")).startswith("neutralised"):
            matrix[name] = dict(status="neutralised-by-a-fix (not a violation any more)"); continue
        r = subprocess.run(["git", "-C", wt, "apply", os.path.abspath(d + "/patch.diff")], capture_output=True, text=True)
        if r.returncode:
            matrix[name] = dict(status="patch-does-not-apply", err=r.stderr[-300:]); print(name, "APPLY-FAIL"); continue
        t0 = time.time()
        env = dict(os.environ, VERIF_REPO_SRC=wt + "/src")
        try:
            p = subprocess.run(["./check", pid, "--tier", "quick", "--no-evidence"], capture_output=True, text=True, timeout=2400, env=env)
            out, rc = p.stdout + p.stderr, p.returncode
        finally:
            subprocess.run(["git", "-C", wt, "checkout", "--", "."])
        labels = sorted(set(re.findall(r"label=(\S+)", out)))
        units = sorted(set(re.findall(r"unit=(\S+)", out)))
        nviol = len(re.findall(r"^VIOLATION", out, re.M))
        tail = [l[:300] for l in out.splitlines() if "INCONCLUSIVE" in l or "-> exit" in l][-3:]
        matrix[name] = dict(check=pid, tier="quick", exit=rc, violations=nviol, labels=labels[:8], units=units[:8], wall_s=round(time.time() - t0, 1), tail=tail)
        print(name, "exit", rc, "violations", nviol, labels[:3], "%.0fs" % (time.time() - t0), flush=True)
        if os.environ.get("RECORD_META"):
            meta["detected_by"] = dict(check="./check %s --tier quick" % pid, exit=rc, violation_lines=nviol, labels=labels[:8], units=units[:8],
                                       applied_to="scratch git worktree of /repo HEAD (VERIF_REPO_SRC)") if rc == 1 and nviol else None
            json.dump(meta, open(d + "/meta.json", "w"), indent=1)
        json.dump(matrix, open(outf, "w"), indent=1, sort_keys=True)
finally:
    subprocess.run(["git", "-C", "/repo", "worktree", "remove", "--force", wt])
