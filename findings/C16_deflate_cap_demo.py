"""Demonstration against the real code with the real zlib: a compressed message larger than
max_message_size is delivered truncated (or breaks the stream) instead of being rejected.
Run: PYTHONPATH=/repo/src /venv/bin/python findings/C16_deflate_cap_demo.py   (exit 1 = defect present)"""
import sys, zlib
from autobahn.websocket.compress_deflate import PerMessageDeflate
rx = PerMessageDeflate(True, False, False, 15, 15, 8, max_message_size=4)
c = zlib.compressobj(-1, zlib.DEFLATED, -15, 8)
msg = b"0123456789"
data = (c.compress(msg) + c.flush(zlib.Z_SYNC_FLUSH))[:-4]
rx.start_decompress_message()
out = rx.decompress_message_data(data)
try:
    rx.end_decompress_message()
    err = None
except Exception as e:
    err = e
print("sent", msg, "delivered", out, "error at end:", err)
sys.exit(1 if out != msg and err is None or (out != msg) else 0)
