"""Plain-mode runner: executes a harness with concrete inputs against the UNINSTRUMENTED import
of /repo/src in this (fresh) interpreter.  Used for counterexample replay and for the concrete
differential self-test.  Prints one `REPLAY-RESULT <json>` line per job."""
import importlib
import json
import os
import sys
import traceback

VERIF = os.path.dirname(os.path.dirname(os.path.abspath(__file__)))
sys.path.insert(0, VERIF)


def _unjson(x):
    if isinstance(x, dict):
        if set(x) == {"__bytes__"}:
            return bytes.fromhex(x["__bytes__"])
        return {k: _unjson(v) for k, v in x.items()}
    if isinstance(x, list):
        return [_unjson(v) for v in x]
    return x


def run_job(job):
    from symx.api import sx
    from symx.runner import _jsonable
    try:
        mod = importlib.import_module(job["mod"])
        fn = getattr(mod, job["func"])
        sx.reset_unit()
        sx.begin_conc(job["inputs"])
        out = fn(sx, **_unjson(job["params"]))
        return dict(summary=json.loads(json.dumps(_jsonable(out))), covers=list(sx.conc_covers),
                    failures=list(sx.conc_failures))
    except BaseException as e:  # noqa
        # the harness died after the scenario had already shown failures (e.g. a later step raised because the connection
        # was failed by the violation): what was recorded up to there still counts
        return dict(error="%s: %s | %s" % (type(e).__name__, e, traceback.format_exc()[-1200:]),
                    failures=list(sx.conc_failures), covers=list(getattr(sx, "conc_covers", [])))


def main():
    from symx import instr
    instr.install_plain()
    import txaio
    if os.environ.get("VERIF_FRAMEWORK", "twisted") == "asyncio":
        txaio.use_asyncio()
    else:
        txaio.use_twisted()
    mode, src = sys.argv[1], sys.argv[2]
    data = sys.stdin.read() if src == "-" else open(src).read()
    jobs = json.loads(data)
    if mode == "--job":
        jobs = [jobs]
    for job in jobs:
        r = run_job(job)
        sys.stdout.write("REPLAY-RESULT " + json.dumps(r) + "\n")
        sys.stdout.flush()


if __name__ == "__main__":
    main()
