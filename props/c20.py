"""C20  End-to-end encrypted payloads are recovered exactly or rejected."""
from . import wamplib

PID = "C20"
FUNCTIONS = [
    "autobahn.wamp.cryptobox: Key.__init__, KeyRing.__init__ / set_key / _get_box / encode / decode",
    "autobahn.wamp.protocol: ApplicationSession.publish / call (payload-transparency paths), onMessage Event / Invocation (incl. progress) / Result / Error branches, _message_from_exception, _exception_from_message",
    "autobahn.wamp.types: EncodedPayload",
    "autobahn.wamp.message: Publish / Event / Call / Invocation / Yield / Result / Error payload-transparency fields",
]
STUBS = ["nacl.public PrivateKey / PublicKey / Box and nacl.utils.random -> ideal-cipher contract model: Box(a_priv, b_pub) and Box(b_priv, a_pub) share one secret; decrypt(c) returns the plaintext iff c is exactly a ciphertext produced under the same secret, every other (ciphertext, key) raises CryptoError",
         "transport -> recording ITransport; a harness 'router' relays PUBLISH->EVENT, CALL->INVOCATION, YIELD->RESULT, ERROR->ERROR between two real sessions", "loggers -> empty bodies"]
ASSUMPTIONS = [
    "that libsodium's crypto_box really detects every ciphertext modification (Poly1305) is outside solver reach; it is the stated contract of the stub",
    "inner serializer is the real json on concrete application values; tampering = XOR of one payload octet at a free position with a free non-zero mask",
]
BOUNDS = {"quick": "4 directions x 5 keyring layouts (default string key, per-prefix key, key pair, originator-only + responder-only pair, no key on the receiving side) x faults {none, tampered octet (free position and mask), wrong key, envelope URI swapped to another URI under the same key}; progressive results; caller-side exception classes registered for the error URIs; pattern-based (prefix) registration with INVOCATION.details.procedure", "thorough": "same with 4 payload shapes (args+kwargs, args only, kwargs only, no payload)"}
EXPECT_COVERS = ["ok:event", "ok:call", "ok:error", "ok:progress", "fault:tamper", "fault:wrongkey", "fault:uriswap", "fault:nokey"]
BUDGET = {"quick": dict(wall_s=200, max_paths=20000, diff_samples=4), "thorough": dict(wall_s=1200)}


class CryptoError(Exception):
    pass


def _install_nacl_model(sx):
    """replace the NaCl names inside autobahn.wamp.cryptobox by the contract model"""
    import autobahn.wamp.cryptobox as cb
    state = dict(n=0, produced={})

    class Pub:
        def __init__(self, raw, encoder=None):
            self.id = raw if isinstance(raw, str) else raw.decode()

        def __eq__(self, o):
            return isinstance(o, Pub) and o.id == self.id

        def __hash__(self):
            return hash(self.id)

    class Priv:
        def __init__(self, raw, encoder=None):
            self.id = raw if isinstance(raw, str) else raw.decode()
            self.public_key = Pub("pub:" + self.id)

    class Box:
        NONCE_SIZE = 24

        def __init__(self, priv, pub):
            self.secret = tuple(sorted([priv.public_key.id, pub.id]))

        def encrypt(self, plaintext, nonce, encoder=None):
            state["n"] += 1
            body = bytes(b ^ 0x5A for b in plaintext)            # no clear text inside the ciphertext
            c = nonce + b"#%d#" % state["n"] + body
            state["produced"].setdefault(self.secret, []).append((c, plaintext))
            return c

        def decrypt(self, ciphertext, encoder=None):
            for c, p in state["produced"].get(self.secret, []):
                if len(c) == len(ciphertext) and bool(ciphertext == c):
                    return p
            raise CryptoError("Decryption failed. Ciphertext failed verification")

    cb.PrivateKey, cb.PublicKey, cb.Box = Priv, Pub, Box
    cb.random = lambda n: bytes([7] * n)
    return state


LAYOUTS = ["default-string", "prefix-string", "pair", "one-sided", "receiver-no-key"]


def _keyrings(layout):
    from autobahn.wamp.cryptobox import KeyRing, Key
    if layout == "default-string":
        return KeyRing("secretA"), KeyRing("secretA")
    if layout == "prefix-string":
        a, b = KeyRing(), KeyRing()
        a.set_key("com.myapp.", "secretA")
        b.set_key("com.myapp.", "secretA")
        return a, b
    if layout == "pair":
        k = Key(originator_priv="op", responder_priv="rp")
        return KeyRing(k), KeyRing(k)
    if layout == "one-sided":
        o = Key(originator_priv="op", responder_pub="pub:rp")
        r = Key(responder_priv="rp", originator_pub="pub:op")
        return KeyRing(o), KeyRing(r)
    return KeyRing("secretA"), None


def _tamper(sx, payload):
    pos = sx.choice("tpos", len(payload))
    mask = sx.int("tmask", 1, 255)
    from symx.core import mkbytes
    items = list(payload)
    items[pos] = items[pos] ^ mask
    return mkbytes(items)


def scenario(sx, direction, layout, fault, shape=0, variant="plain"):
    from autobahn.wamp import message, types
    from autobahn.wamp.exception import ApplicationError
    _install_nacl_model(sx)
    clock, tr1, orig, t1 = wamplib.joined_session(sx)
    clock2, tr2, resp, t2 = wamplib.joined_session(sx)
    kr_o, kr_r = _keyrings(layout)
    if fault == "wrongkey":
        from autobahn.wamp.cryptobox import KeyRing
        kr_r = KeyRing("anotherSecret")
    orig.set_payload_codec(kr_o)
    if kr_r is not None:
        resp.set_payload_codec(kr_r)
    ENC = (ApplicationError.ENC_NO_PAYLOAD_CODEC, ApplicationError.ENC_TRUSTED_URI_MISMATCH, ApplicationError.ENC_DECRYPT_ERROR)
    URI, URI2 = "com.myapp.thing", "com.myapp.other"
    ARGS, KWARGS = [([1, "two", [3]], {"k": {"n": 1}}), ([5], {}), ([], {"only": "kw"}), ([], {})][shape]
    info = dict(direction=direction, layout=layout, fault=fault, shape=shape, variant=variant)

    class MappedError(Exception):
        def __init__(self, *a, **k):
            Exception.__init__(self, *a)
            self.kwargs = k
    if variant == "mapped-error":
        # the caller has its own exception classes registered for the error URIs
        orig.define(MappedError, "com.myapp.error.bad")
        orig.define(type("OtherMapped", (MappedError,), {}), "com.myapp.error.other")
    expect_ok = fault == "none" and kr_r is not None

    def clear_free(m):
        return m.payload is not None and m.enc_algo == "cryptobox" and not m.args and not m.kwargs

    def maybe_fault(payload):
        if fault == "tamper":
            return _tamper(sx, payload)
        return payload

    got = []
    if direction == "event":
        resp.subscribe(lambda *a, **k: got.append((a, k)), URI)
        resp.onMessage(message.Subscribed(t2.sent[-1].request, 100))
        resp.subscribe(lambda *a, **k: got.append(("OTHER", a, k)), URI2)
        resp.onMessage(message.Subscribed(t2.sent[-1].request, 101))
        orig.publish(URI, *ARGS, **KWARGS)
        pub = t1.sent[-1]
        sx.check(isinstance(pub, message.Publish) and clear_free(pub), "PUBLISH-carries-ciphertext-and-no-clear-payload", info=info)
        sub_id = 101 if fault == "uriswap" else 100
        try:
            resp.onMessage(message.Event(sub_id, 7, payload=maybe_fault(pub.payload), enc_algo=pub.enc_algo, enc_key=pub.enc_key, enc_serializer=pub.enc_serializer))
        except Exception as e:  # noqa
            sx.fail("exception-escapes-onMessage(EVENT)", info=dict(info, exc=repr(e)))
            return ["exc"]
        if expect_ok:
            sx.check(got == [(tuple(ARGS), KWARGS)], "subscriber-receives-exactly-the-published-payload", info=dict(info, got=repr(got)))
            sx.cover("ok:event")
        else:
            sx.check(got == [], "handler-not-invoked-on-altered-or-undecryptable-payload", info=dict(info, got=repr(got)))
    else:
        def ep(*a, **k):
            got.append((a, dict((kk, v) for kk, v in k.items() if kk != "details")))
            det = k.get("details")
            if direction == "progress" and det is not None and det.progress:
                det.progress("p1")
            if direction == "error":
                raise ApplicationError("com.myapp.error.bad", "why", code=5)
            return types.CallResult("ret", z=2)

        if variant == "prefix-reg":
            # pattern-based registration: the URI that was called travels in INVOCATION.details.procedure
            resp.register(ep, "com.myapp", options=types.RegisterOptions(match="prefix", details_arg="details"))
        else:
            resp.register(ep, URI, options=types.RegisterOptions(details_arg="details"))
        resp.onMessage(message.Registered(t2.sent[-1].request, 200))
        resp.register(lambda *a, **k: got.append(("OTHER", a, k)), URI2)
        resp.onMessage(message.Registered(t2.sent[-1].request, 201))
        prog = []
        res = []
        copts = types.CallOptions(on_progress=lambda *a, **k: prog.append((a, k))) if direction == "progress" else None
        d = orig.call(URI, *ARGS, options=copts, **KWARGS) if copts else orig.call(URI, *ARGS, **KWARGS)
        d.addCallbacks(lambda r: res.append(("ok", r)), lambda f: res.append(("err", f.value)))
        call = t1.sent[-1]
        sx.check(isinstance(call, message.Call) and clear_free(call), "CALL-carries-ciphertext-and-no-clear-payload", info=info)
        n2 = len(t2.sent)
        fault_req = fault if direction == "call" else "none"      # for result/error directions the request leg is honest
        reg_id = 201 if (fault_req == "uriswap") else 200
        pl = maybe_fault(call.payload) if fault_req == "tamper" else call.payload
        try:
            resp.onMessage(message.Invocation(900, reg_id, payload=pl, enc_algo=call.enc_algo, enc_key=call.enc_key, enc_serializer=call.enc_serializer,
                                              receive_progress=(direction == "progress"), procedure=URI if (variant == "prefix-reg" and reg_id == 200) else None))
        except Exception as e:  # noqa
            sx.fail("exception-escapes-onMessage(INVOCATION)", info=dict(info, exc=repr(e)))
            return ["exc"]
        replies = [m for m in t2.sent[n2:] if isinstance(m, (message.Yield, message.Error))]
        request_ok = (fault_req == "none" and kr_r is not None and fault != "wrongkey") or (direction != "call" and kr_r is not None and fault != "wrongkey")
        if not request_ok:
            sx.check(got == [], "endpoint-not-invoked-on-altered-or-undecryptable-payload", info=dict(info, got=repr(got)))
            sx.check(len(replies) == 1 and isinstance(replies[0], message.Error) and replies[0].error in ENC,
                     "callee-answers-with-explicit-encryption-error", info=dict(info, replies=[getattr(r, "error", type(r).__name__) for r in replies]))
            # relay the error to the caller: the call fails with that explicit error
            if replies:
                r = replies[0]
                orig.onMessage(message.Error(message.Call.MESSAGE_TYPE, call.request, r.error, args=r.args, kwargs=r.kwargs, payload=r.payload,
                                             enc_algo=r.enc_algo, enc_key=r.enc_key, enc_serializer=r.enc_serializer))
                sx.check(len(res) == 1 and res[0][0] == "err", "call-fails-explicitly", info=dict(info, res=repr(res)))
        else:
            sx.check(got == [(tuple(ARGS), KWARGS)], "endpoint-receives-exactly-the-callers-payload", info=dict(info, got=repr(got)))
            for r in replies:
                sx.check(clear_free(r), "reply-carries-ciphertext-and-no-clear-payload", info=dict(info, reply=type(r).__name__, progress=getattr(r, "progress", None)))
            finals = [r for r in replies if isinstance(r, message.Error) or not r.progress]
            sx.check(len(finals) == 1, "one-terminal-reply", info=info)
            # relay replies to the caller (faults on this leg for result / error / progress directions)
            for r in replies:
                rf = fault if direction in ("result", "error", "progress") else "none"
                pl = _tamper(sx, r.payload) if rf == "tamper" and r.payload is not None else r.payload
                try:
                    if isinstance(r, message.Yield):
                        orig.onMessage(message.Result(call.request, payload=pl, progress=r.progress, enc_algo=r.enc_algo, enc_key=r.enc_key, enc_serializer=r.enc_serializer))
                    else:
                        euri = r.error if rf != "uriswap" else "com.myapp.error.other"
                        orig.onMessage(message.Error(message.Call.MESSAGE_TYPE, call.request, euri, payload=pl, enc_algo=r.enc_algo, enc_key=r.enc_key, enc_serializer=r.enc_serializer))
                except Exception as e:  # noqa
                    sx.fail("exception-escapes-caller-onMessage", info=dict(info, exc=repr(e)))
                    return ["exc"]
            sx.check(len(res) == 1, "call-completes-once", info=dict(info, res=repr(res)))
            reply_ok = fault in ("none",) or direction == "call"
            if direction in ("result", "progress") and fault == "uriswap":
                reply_ok = True       # RESULT carries no URI on the envelope: nothing to swap
            if res:
                if reply_ok and direction != "error":
                    r0 = res[0]
                    ok = r0[0] == "ok" and isinstance(r0[1], types.CallResult) and tuple(r0[1].results) == ("ret",) and r0[1].kwresults == {"z": 2}
                    sx.check(ok, "caller-receives-exactly-the-callees-result", info=dict(info, res=repr(res)))
                    if direction == "progress":
                        sx.check(prog == [(("p1",), {})], "progressive-result-recovered", info=dict(info, prog=repr(prog)))
                        sx.cover("ok:progress")
                    sx.cover("ok:call")
                elif reply_ok and direction == "error":
                    r0 = res[0]
                    if variant == "mapped-error":
                        ok = r0[0] == "err" and type(r0[1]) is MappedError and tuple(r0[1].args) == ("why",) and r0[1].kwargs == {"code": 5}
                    else:
                        ok = r0[0] == "err" and isinstance(r0[1], ApplicationError) and r0[1].error == "com.myapp.error.bad" and tuple(r0[1].args) == ("why",) and r0[1].kwargs == {"code": 5}
                    sx.check(ok, "caller-receives-exactly-the-callees-error", info=dict(info, res=repr(res)))
                    sx.cover("ok:error")
                else:
                    r0 = res[0]
                    ok = r0[0] == "err" and isinstance(r0[1], ApplicationError) and r0[1].error in ENC
                    sx.check(ok, "altered-reply=>explicit-encryption-error-not-altered-payload", info=dict(info, res=repr(res)))
                    if direction == "progress":
                        sx.check(prog == [], "altered-progress-not-delivered", info=dict(info, prog=repr(prog)))
    if fault != "none":
        sx.cover("fault:" + fault)
    if kr_r is None:
        sx.cover("fault:nokey")
    return [direction, layout, fault, len(got)]


def units(tier):
    U = []
    for direction in ("event", "call", "result", "error", "progress"):
        for layout in LAYOUTS:
            for fault in ("none", "tamper", "wrongkey", "uriswap"):
                if layout == "receiver-no-key" and fault != "none":
                    continue
                if direction in ("result", "error", "progress") and layout == "receiver-no-key":
                    continue
                U.append(("%s/%s/%s" % (direction, layout, fault), "scenario", dict(direction=direction, layout=layout, fault=fault)))
                if direction == "error" and layout in ("default-string", "pair"):
                    U.append(("%s/%s/%s/mapped" % (direction, layout, fault), "scenario", dict(direction=direction, layout=layout, fault=fault, variant="mapped-error")))
                if direction in ("call", "result", "progress") and layout in ("default-string", "prefix-string") and fault in ("none", "tamper"):
                    U.append(("%s/%s/%s/prefix-reg" % (direction, layout, fault), "scenario", dict(direction=direction, layout=layout, fault=fault, variant="prefix-reg")))
                if tier != "quick":
                    for shape in (1, 2, 3):
                        U.append(("%s/%s/%s/shape%d" % (direction, layout, fault, shape), "scenario", dict(direction=direction, layout=layout, fault=fault, shape=shape)))
    return U
