"""C16  Configured payload limits are enforced early and never by truncation."""
from . import wslib
from .zmodel import ZModel

PID = "C16"
FUNCTIONS = [
    "autobahn.websocket.protocol: WebSocketProtocol.onMessageFrameBegin (running message length, message/frame limit checks), _max_message_size_exceeded, _fail_connection",
    "autobahn.websocket.protocol: processData (16/64-bit declared lengths from the header), onFrameBegin, onMessageBegin, onFrameData, onFrameEnd",
    "autobahn.websocket.protocol: sendMessage (send-side size check, PayloadExceededError)",
    "autobahn.websocket.protocol: WebSocketServerFactory.setProtocolOptions / WebSocketClientFactory.setProtocolOptions (limit options reach the protocol)",
    "autobahn.websocket.compress_deflate: PerMessageDeflate.start_decompress_message / decompress_message_data(max_message_size) / end_decompress_message",
]
STUBS = ["zlib.compressobj/decompressobj -> reference stateful codec model (props/zmodel.py): decompress(data, max_length) returns at most max_length octets, rest in unconsumed_tail",
         "transport -> recording object; reactor -> twisted Clock; random.getrandbits -> fresh variable; loggers -> empty bodies"]
ASSUMPTIONS = [
    "limits are free integers (0..2^63); declared lengths come from free header octets (16- and 64-bit forms) with the payload withheld, or are small concrete lengths with delivered payload",
    "real deflate streams are not encoded (C library); the decompression cap is checked against the documented zlib contract only",
]
BOUNDS = {
    "quick": "<= 3 fragments with concrete payload lengths 0..4 and a final header-only frame with a free 7/16/64-bit declared length; maxFramePayloadSize and maxMessagePayloadSize free in 0..2^63; both roles, both fail modes; sendMessage with payload lengths 0..5 vs a free limit, with and without (auto)fragmentation; option setters with equal/unequal limit pairs; decompression cap free in 0..8 vs message lengths 0..6 x 2 messages; the same limits while a locally started closing handshake is in progress (rxclosing/ units)",
    "thorough": "as quick with <= 4 fragments, lengths 0..8, every fragment split",
}
EXPECT_COVERS = ["rx:while-closing", "rx:over-msg-limit", "rx:over-frame-limit", "rx:within", "tx:refused", "tx:sent", "opts:set", "z:intact"]
BUDGET = {"quick": dict(wall_s=300, max_paths=30000, diff_samples=4), "thorough": dict(wall_s=1800, max_paths=300000)}
KNOWN = {"C16-deflate-cap-truncates": "PerMessageDeflate.decompress_message_data(data, max_message_size) passes the cap to zlib as max_length: a compressed message whose decompressed size exceeds the cap is delivered truncated (and the rest stays in unconsumed_tail) instead of being rejected"}


def rx_limit(sx, server, fbd, lens, last_form, use_frame_limit, use_msg_limit, closing=False):
    """message spread over len(lens) complete fragments + one final frame whose header only is delivered"""
    clock, trace, ep, rnd = wslib.open_one(sx, server, dict(failByDrop=fbd))
    p = ep.p
    MAXL = 2 ** 63
    p.maxFramePayloadSize = sx.int("maxFrame", 0, MAXL) if use_frame_limit else 0
    p.maxMessagePayloadSize = sx.int("maxMsg", 0, MAXL) if use_msg_limit else 0
    mf, mm = p.maxFramePayloadSize, p.maxMessagePayloadSize
    who = ep.who
    mask = b"\x11\x22\x33\x44" if server else None
    total = 0
    failed = False          # expected: connection already failed
    info = dict(lens=lens, last_form=last_form, server=server, fbd=fbd, closing=closing)
    if closing:
        # the application has already started the closing handshake; the peer's messages in flight still arrive before its close reply
        # and the limits hold for them as well (an over-limit one fails the connection at once instead of being buffered)
        p.sendClose(1000)
        ep.t.take()

    def over(decl, tot):
        o_msg = sx.And(mm > 0, tot > mm)
        o_frm = sx.And(mf > 0, decl > mf)
        return o_msg, o_frm

    def is_failed():
        if closing:
            return ep.t.closed is not None
        return ep.t.closed is not None or p.state != p.STATE_OPEN

    for i, L in enumerate(lens):
        hdr_and_payload = wslib.build_frame(2 if i == 0 else 0, b"\x55" * L, fin=False, mask=mask)
        hlen = len(hdr_and_payload) - L
        # header first (payload withheld), then the payload
        p.dataReceived(hdr_and_payload[:hlen])
        total = total + L
        o_msg, o_frm = over(L, total)
        exp_fail = bool(sx.Or(o_msg, o_frm))
        sx.check(is_failed() == exp_fail, "limit-decided-when-header-read(before-payload)", info=dict(info, frag=i))
        if exp_fail:
            failed = True
            sx.cover("rx:over-msg-limit" if bool(o_msg) else "rx:over-frame-limit")
            break
        p.dataReceived(hdr_and_payload[hlen:])
    if not failed:
        # final frame: header only, declared length from free octets
        if last_form == 7:
            ln = sx.int("len7", 0, 125)
            hdr = wslib._mk([0x80, (0x80 if server else 0) | ln])
            decl = ln
        elif last_form == 16:
            lo = sx.bytes("len16", 2)
            decl = (lo[0] << 8) | lo[1]
            sx.assume(decl >= 126)
            hdr = wslib._mk([0x80, (0x80 if server else 0) | 126]) + lo
        else:
            lo = sx.bytes("len64", 8)
            decl = 0
            for b in lo:
                decl = (decl << 8) | b
            sx.assume(sx.And(decl >= 65536, decl <= 0x7FFFFFFFFFFFFFFF))
            hdr = wslib._mk([0x80, (0x80 if server else 0) | 127]) + lo
        if lens == []:
            hdr = wslib._mk([0x82]) + hdr[1:]
        if server:
            hdr = hdr + mask
        p.dataReceived(hdr)
        total = total + decl
        o_msg, o_frm = over(decl, total)
        exp_fail = bool(sx.Or(o_msg, o_frm))
        sx.check(is_failed() == exp_fail, "limit-decided-when-header-read(before-payload)", info=dict(info, frag="last"))
        if exp_fail:
            failed = True
            sx.cover("rx:over-msg-limit" if bool(o_msg) else "rx:over-frame-limit")
        else:
            sx.cover("rx:within")
            # deliver the payload when it is small: the message must arrive intact
            if last_form == 7 and bool(decl <= 3):
                k = decl.__index__() if hasattr(decl, "e") else decl
                pl = b"\x66" * k
                raw = pl if not server else bytes(b ^ mask[j & 3] for j, b in enumerate(pl))
                p.dataReceived(raw)
                msgs = trace.of(who, "msg")
                sx.check(len(msgs) == 1, "within-limit-message-delivered", info=info)
                if msgs:
                    sx.check(msgs[0][2] == b"".join(b"\x55" * L for L in lens) + pl, "within-limit-message-intact", info=info)
    if failed:
        sx.check(len(trace.of(who, "msg")) == 0, "over-limit-message-never-delivered", info=info)
        wire = wslib.concat(ep.t.take())
        frames, rest = wslib.parse_frames(sx, wire)
        closes = [f for f in frames if f.opcode == 8]
        if fbd:
            sx.check(ep.t.closed == "abort" and not closes, "fail-by-drop:tcp-dropped", info=info)
        elif closing:
            sx.check(ep.t.closed is not None and not closes, "already-closing:tcp-dropped-without-a-second-close-frame", info=info)
        else:
            sx.check(len(closes) == 1, "close-frame-sent", info=info)
            if closes and closes[0].length >= 2:
                code = (closes[0].payload[0] << 8) | closes[0].payload[1]
                sx.check(code == 1009, "close-status-1009", info=info)
        # nothing of the offending frame is buffered as message data
        sx.check(not getattr(p, "frame_data", None), "offending-frame-payload-not-buffered", info=info)
    if closing:
        sx.cover("rx:while-closing")
    return [failed, len(trace.of(who, "msg"))]


def tx_limit(sx, server, n, mode):
    clock, trace, ep, rnd = wslib.open_one(sx, server, dict())
    p = ep.p
    from autobahn.exception import PayloadExceededError
    lim = sx.int("maxMsg", 0, 2 ** 63)
    p.maxMessagePayloadSize = lim
    pl = sx.bytes("m", n)
    kw = {}
    if mode == "deflate":
        # permessage-deflate negotiated: the limit is about what goes on the wire (the peer applies the same limit to what it receives)
        import autobahn.websocket.compress_deflate as cd
        cd.zlib = ZModel()
        p._perMessageCompress = cd.PerMessageDeflate(server, False, False, 15, 15, 8)
        try:
            p.sendMessage(pl, isBinary=True)
            exc = None
        except PayloadExceededError as e:
            exc = e
        except Exception as e:  # noqa
            sx.fail("unexpected-exception-type-from-sendMessage", info=repr(e))
            return ["exc"]
        wslib.drain(clock)
        wire = wslib.concat(ep.t.take())
        info = dict(n=n, mode=mode, server=server)
        if exc is not None:
            sx.check(len(wire) == 0, "nothing-written-on-refused-send", info=info)
            sx.check(sx.And(lim > 0, lim < n + 4), "refused-only-when-the-wire-payload-exceeds-the-limit", info=info)
            sx.cover("tx:refused")
        else:
            frames, rest = wslib.parse_frames(sx, wire)
            total = sum(f.length for f in frames if f.opcode < 8)
            sx.check(sx.Or(lim == 0, total <= lim), "written-wire-payload-never-exceeds-the-limit", info=dict(info, total=total))
            sx.cover("tx:sent")
        return [exc is None]
    if mode == "frag":
        kw["fragmentSize"] = max(1, n // 2)
    elif mode == "auto":
        p.autoFragmentSize = 1
    exc = None
    try:
        p.sendMessage(pl, isBinary=True, **kw)
    except PayloadExceededError as e:
        exc = e
    except Exception as e:  # noqa
        sx.fail("unexpected-exception-type-from-sendMessage", info=repr(e))
        return ["exc"]
    wslib.drain(clock)
    wire = wslib.concat(ep.t.take())
    over = bool(sx.And(lim > 0, lim < n))
    info = dict(n=n, mode=mode, server=server)
    if over:
        sx.check(exc is not None, "over-limit-send-refused-with-PayloadExceededError", info=info)
        sx.check(len(wire) == 0, "nothing-written-on-refused-send", info=info)
        sx.cover("tx:refused")
    else:
        sx.check(exc is None, "within-limit-send-accepted", info=info)
        frames, rest = wslib.parse_frames(sx, wire)
        ev, ok = wslib.frames_to_messages(frames)
        sx.check(ok and len(ev) == 1 and len(rest) == 0, "within-limit-send-written", info=info)
        if ok and len(ev) == 1:
            sx.check(ev[0][1] == pl, "within-limit-send-intact", info=info)
        sx.cover("tx:sent")
    return [over]


def options(sx, server, order, same):
    """limits configured through the public option setters reach the protocol, in any order and value relation"""
    import txaio
    txaio.use_twisted()
    from autobahn.twisted import websocket as tw
    clock = wslib.setup_twisted()
    a = 1000
    b = a if same else 2000
    f = tw.WebSocketServerFactory("ws://localhost:9000", reactor=clock) if server else tw.WebSocketClientFactory("ws://localhost:9000", reactor=clock)
    if order == "together":
        f.setProtocolOptions(maxFramePayloadSize=a, maxMessagePayloadSize=b)
    elif order == "frame-first":
        f.setProtocolOptions(maxFramePayloadSize=a)
        f.setProtocolOptions(maxMessagePayloadSize=b)
    else:
        f.setProtocolOptions(maxMessagePayloadSize=b)
        f.setProtocolOptions(maxFramePayloadSize=a)
    sx.check(f.maxFramePayloadSize == a and f.maxMessagePayloadSize == b, "limit-options-stored", info=dict(server=server, order=order, same=same))
    sx.cover("opts:set")
    return [f.maxFramePayloadSize, f.maxMessagePayloadSize]


def zcap(sx, server, n1, n2, nfrag):
    """compressed messages through the real PerMessageDeflate object with a decompression cap:
    every delivered message equals what was sent (never truncated/altered), later messages unaffected"""
    import autobahn.websocket.compress_deflate as cd
    z = ZModel()
    cd.zlib = z
    clock, trace, ep, rnd = wslib.open_one(sx, server, dict())
    p = ep.p
    cap = sx.int("cap", 1, 8)
    pmce = cd.PerMessageDeflate(server, False, False, 15, 15, 8, max_message_size=cap)
    p._perMessageCompress = pmce
    who = ep.who
    sender = z.compressobj(-1, 8, -15, 8)
    mask = b"\x11\x22\x33\x44" if server else None
    sent = []
    known_pred = sx.Or(*[sx.Not(cap >= n) for n in (n1, n2)])   # the listed finding: some message's decompressed size exceeds the cap
    KN = [("C16-deflate-cap-truncates", known_pred)]
    for i, n in enumerate((n1, n2)):
        pl = sx.bytes("m%d" % i, n)
        sender.compress(pl)
        comp = sender.flush(z.Z_SYNC_FLUSH)[:-4]
        sent.append(pl)
        # fragment the compressed stream
        cuts = [len(comp) * k // nfrag for k in range(1, nfrag)]
        prev = 0
        for j, c in enumerate(cuts + [len(comp)]):
            fr = wslib.build_frame(2 if j == 0 else 0, comp[prev:c], fin=(j == nfrag - 1), rsv=4 if j == 0 else 0, mask=mask)
            try:
                p.dataReceived(fr)
            except Exception as e:  # noqa
                sx.fail("exception-escapes-dataReceived", info=repr(e), known=KN)
                return ["exc"]
            prev = c
    msgs = trace.of(who, "msg")
    info = dict(n1=n1, n2=n2, nfrag=nfrag, server=server)
    # every delivered message is one of the sent ones, unaltered and in order
    ok = True
    di = 0
    conds = []
    for m in msgs:
        # match greedily against the remaining sent messages
        alts = []
        for k in range(di, len(sent)):
            alts.append(m[2] == sent[k])
        conds.append(sx.Or(*alts) if alts else False)
    sx.check(sx.And(*conds) if conds else True, "delivered-message-is-never-truncated-or-altered", info=info,
             known=KN)
    # within the cap everything arrives
    sx.check(sx.Implies(sx.Not(known_pred), len(msgs) == 2), "within-cap-all-messages-delivered", info=info)
    if not bool(known_pred):
        sx.cover("z:intact")
        sx.check(sx.And(msgs[0][2] == sent[0], msgs[1][2] == sent[1]) if len(msgs) == 2 else False, "within-cap-intact", info=info)
    return [len(msgs)]


def units(tier):
    U = []
    q = tier == "quick"
    lens_list = [[], [0], [3], [2, 1], [1, 0, 4]] if q else [[], [0], [1], [3], [2, 1], [0, 5], [1, 0, 4], [2, 2, 2, 1]]
    for server in (True, False):
        for fbd in (True, False):
            for lens in lens_list:
                for form in (7, 16, 64):
                    for (uf, um) in ((True, True), (True, False), (False, True)):
                        if q and (uf, um) != (True, True) and (form == 64 or len(lens) > 1):
                            continue
                        U.append(("rx/%s/%s/%s/f%d/%d%d" % ("S" if server else "C", "drop" if fbd else "hs", "-".join(map(str, lens)) or "none", form, uf, um),
                                  "rx_limit", dict(server=server, fbd=fbd, lens=lens, last_form=form, use_frame_limit=uf, use_msg_limit=um)))
        for fbd in (True, False):
            for lens in ([[], [2, 1]] if q else [[], [3], [2, 1], [1, 0, 4]]):
                for form in ((7, 16) if q else (7, 16, 64)):
                    U.append(("rxclosing/%s/%s/%s/f%d" % ("S" if server else "C", "drop" if fbd else "hs", "-".join(map(str, lens)) or "none", form),
                              "rx_limit", dict(server=server, fbd=fbd, lens=lens, last_form=form, use_frame_limit=True, use_msg_limit=True, closing=True)))
        for n in (range(0, 6) if q else range(0, 9)):
            for mode in ("plain", "frag", "auto", "deflate"):
                U.append(("tx/%s/n%d/%s" % ("S" if server else "C", n, mode), "tx_limit", dict(server=server, n=n, mode=mode)))
        for order in ("together", "frame-first", "msg-first"):
            for same in (True, False):
                U.append(("opts/%s/%s/%s" % ("S" if server else "C", order, "same" if same else "diff"), "options", dict(server=server, order=order, same=same)))
        for n1, n2 in ([(0, 3), (3, 2), (6, 1), (2, 6)] if q else [(a, b) for a in range(0, 7) for b in range(0, 7)]):
            for nfrag in (1, 2, 3):
                U.append(("z/%s/%d-%d/f%d" % ("S" if server else "C", n1, n2, nfrag), "zcap", dict(server=server, n1=n1, n2=n2, nfrag=nfrag)))
    return U
