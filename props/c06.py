"""C06  WAMP sessions end cleanly on every path and leave nothing pending."""
from . import wamplib

PID = "C06"
FUNCTIONS = [
    "autobahn.wamp.protocol: ApplicationSession.onOpen / onConnect / join / onMessage (pre-session gate: Welcome / Abort / Challenge; Goodbye branch)",
    "autobahn.wamp.protocol: ApplicationSession.leave / disconnect / onLeave / onDisconnect / onClose / _errback_outstanding_requests",
    "autobahn.wamp.protocol: publish / call / subscribe / register / _unsubscribe / _unregister (API guards: TransportLost)",
    "autobahn.util: ObservableMixin.on / fire ('connect','join','ready','leave','disconnect')",
]
STUBS = ["transport -> recording ITransport (close()/abort() recorded; transport loss = the harness calling session.onClose as the real transports do)", "real Twisted Deferreds", "loggers -> empty bodies"]
ASSUMPTIONS = [
    "Twisted back-end; the transport-side glue that calls ISession.onClose exactly once is C13",
    "router messages are message objects (parsing is C08); the router follows the WAMP session state machine except for one illegal message at a free position",
]
BOUNDS = {
    "quick": "event sequences of length <= 4 after connect over {CHALLENGE, WELCOME, ABORT, GOODBYE, illegal message (5 kinds), local leave, local disconnect, transport loss}; pending requests of all 6 kinds present or not; user callbacks onJoin/onLeave/onChallenge/onWelcome/onDisconnect raising or not (one at a time); a second session joined on the same transport; applications reacting during teardown: a retry issued from the errback of a pending call, leave() called from onLeave (react/ units)",
    "thorough": "sequences of length <= 5 (length 6 was measured: > 4.4 million paths, over the 40 min budget), one raising callback at a time, pending requests together with each raising callback",
}
EXPECT_COVERS = ["react:retry", "end:goodbye-by-router", "end:goodbye-by-us", "end:abort", "end:transport-lost-joined", "end:transport-lost-unjoined", "illegal:ProtocolError", "pending:errbacked", "after:raises", "rejoin"]
BUDGET = {"quick": dict(wall_s=300, max_paths=40000, diff_samples=4), "thorough": dict(wall_s=2400, max_paths=400000)}

MENU = ["challenge", "welcome", "abort", "goodbye", "illegal", "leave", "disconnect", "lost"]


def _populate(s, t, message, types, react=None):
    """one pending request of each kind; returns {name: Outcome}"""
    fired = []
    outs = {}
    # subscription / registration to have something to unsubscribe / unregister
    d = s.subscribe(lambda *a, **k: None, "com.pre.t")
    s.onMessage(message.Subscribed(t.sent[-1].request, 500))
    sub = d.result
    d = s.register(lambda *a, **k: None, "com.pre.p")
    s.onMessage(message.Registered(t.sent[-1].request, 600))
    reg = d.result
    dcall = s.call("com.p")
    if react == "retry":
        # an application that retries a failed call from its errback (while the session is being torn down the new request must fail too -
        # at once or through its own Deferred - never stay pending)
        def retry(f):
            try:
                outs["retry"] = wamplib.Outcome("retry", s.call("com.p.retry"), fired)
            except Exception as e:  # noqa
                outs["retry-raised"] = e
            return f
        dcall.addErrback(retry)
    outs["call"] = wamplib.Outcome("call", dcall, fired)
    outs["publish"] = wamplib.Outcome("publish", s.publish("com.t", 1, options=types.PublishOptions(acknowledge=True)), fired)
    outs["subscribe"] = wamplib.Outcome("subscribe", s.subscribe(lambda: None, "com.t2"), fired)
    outs["register"] = wamplib.Outcome("register", s.register(lambda: None, "com.p2"), fired)
    outs["unsubscribe"] = wamplib.Outcome("unsubscribe", sub.unsubscribe(), fired)
    outs["unregister"] = wamplib.Outcome("unregister", reg.unregister(), fired)
    return outs


def lifecycle(sx, K, populate, raising, first, react=None):
    from autobahn.wamp import message, role, types
    from autobahn.wamp.exception import ProtocolError, TransportLost, ApplicationError
    from symx.env import Trace
    clock = wamplib.setup()
    trace = Trace()
    attrs = dict(onChallenge=_mk_on_challenge(trace, raising == "onChallenge"), onWelcome=_mk_on_welcome(trace, raising == "onWelcome"))
    if react == "leave":
        attrs["onLeave"] = _mk_on_leave_calling_leave(trace)
    s = wamplib.make_session(sx, trace, raising={raising: True} if raising else None, cls_attrs=attrs)
    t = wamplib.MockTransport(trace)
    t.session = s
    s.onOpen(t)
    hello = [m for m in t.sent if isinstance(m, message.Hello)]
    sx.check(len(hello) == 1, "HELLO-sent-on-connect")
    roles = {"broker": role.RoleBrokerFeatures(), "dealer": role.RoleDealerFeatures()}
    phase = "hello"        # hello | joined | closed-session(left) | gone
    we_sent_goodbye = False
    goodbyes_sent_before = 0
    outs = {}
    log = []
    joined_once = False
    expect_leave = 0
    for step in range(K):
        ev = first if step == 0 else MENU[sx.choice("ev%d" % step, len(MENU))]
        if t.session is None:
            break
        log.append(ev)
        exc = None
        n_goodbye = len([m for m in t.sent if isinstance(m, message.Goodbye)])
        try:
            if ev == "challenge":
                s.onMessage(message.Challenge("wampcra", {"challenge": "x"}))
            elif ev == "welcome":
                s.onMessage(message.Welcome(4242, roles))
            elif ev == "abort":
                s.onMessage(message.Abort("wamp.error.no_such_realm", "nope"))
            elif ev == "goodbye":
                s.onMessage(message.Goodbye("wamp.close.normal"))
            elif ev == "illegal":
                k = sx.choice("illegal%d" % step, 5)
                m = [message.Result(1, args=[1]), message.Event(1, 2), message.Published(1, 2), message.Authenticate("sig"), message.Hello("realm1", {"caller": role.RoleCallerFeatures()})][k]
                s.onMessage(m)
            elif ev == "leave":
                s.leave()
            elif ev == "disconnect":
                s.disconnect()
            elif ev == "lost":
                t.lose(False)
        except ProtocolError as e:
            exc = e
        except Exception as e:  # noqa
            sx.fail("unexpected-exception", info="%s in %s: %r (log %s)" % (type(e).__name__, ev, e, log))
            return ["exc"]
        info = dict(step=step, ev=ev, phase=phase, log=list(log), exc=repr(exc), raising=raising)
        new_goodbye = len([m for m in t.sent if isinstance(m, message.Goodbye)]) - n_goodbye
        # ---- expectations per phase
        if ev in ("challenge", "welcome", "abort", "goodbye", "illegal"):
            legal = (phase == "hello" and ev in ("challenge", "welcome", "abort")) or (phase == "joined" and ev in ("goodbye",))
            if phase == "joined" and ev == "illegal":
                # Result/Event/Published for unknown ids are protocol errors too; Authenticate/Hello are unexpected
                legal = False
            if not legal:
                sx.check(isinstance(exc, ProtocolError), "message-illegal-in-this-phase=>ProtocolError", info=info)
                sx.cover("illegal:ProtocolError")
            else:
                sx.check(exc is None, "legal-message-accepted", info=info)
                if ev == "welcome":
                    if raising == "onWelcome":
                        # the session is refused by the application: ABORT goes out, not joined
                        sx.check(any(isinstance(m, message.Abort) for m in t.sent), "failing-onWelcome=>ABORT-sent", info=info)
                    else:
                        phase = "joined"
                        joined_once = True
                        if populate:
                            outs = _populate(s, t, message, types, react)
                elif ev == "abort":
                    phase = "left"
                    expect_leave += 1
                    sx.cover("end:abort")
                elif ev == "goodbye":
                    # answered iff we did not initiate
                    if we_sent_goodbye:
                        sx.check(new_goodbye == 0, "no-second-GOODBYE-when-we-initiated", info=info)
                        sx.cover("end:goodbye-by-us")
                    else:
                        sx.check(new_goodbye == 1, "peer-GOODBYE-answered", info=info)
                        sx.cover("end:goodbye-by-router")
                    phase = "left"
                    expect_leave += 1
                elif ev == "challenge" and raising == "onChallenge":
                    sx.check(any(isinstance(m, message.Abort) for m in t.sent), "failing-onChallenge=>ABORT-sent", info=info)
                    phase = "left"
                    expect_leave += 1
        elif ev == "leave":
            if phase == "joined":
                if not we_sent_goodbye:
                    sx.check(new_goodbye == 1, "leave-sends-GOODBYE", info=info)
                    we_sent_goodbye = True
                else:
                    sx.check(new_goodbye == 0, "GOODBYE-at-most-once-per-session", info=info)
            else:
                sx.check(new_goodbye == 0, "leave-outside-a-session-sends-nothing", info=info)
        elif ev == "lost":
            if phase == "joined":
                expect_leave += 1
                sx.cover("end:transport-lost-joined")
            else:
                sx.cover("end:transport-lost-unjoined")
            phase = "gone"
        # a session that ended asks the transport to close; real transports then report the loss
        if phase in ("left",) and t.closed and t.session is not None:
            t.lose(True)
            phase = "gone"
        if phase == "left":
            break       # the router conversation is over (the state machine permits nothing more without a new HELLO)
        if ev == "disconnect" and t.closed and t.session is not None:
            if phase == "joined":
                expect_leave += 1
            t.lose(True)
            phase = "gone"
    if t.session is not None:
        if phase == "joined":
            expect_leave += 1
        t.lose(False)
        phase = "gone"
    info = dict(log=log, raising=raising, populate=populate)
    # ---- callback order and multiplicity
    names = [e[1] for e in trace if e[0] == "S" and e[1] in ("onConnect", "onJoin", "onLeave", "onDisconnect")]
    order = {"onConnect": 0, "onJoin": 1, "onLeave": 2, "onDisconnect": 3}
    sx.check(all(order[a] <= order[b] for a, b in zip(names, names[1:])), "callbacks-in-order-connect-join-leave-disconnect", info=dict(info, names=names))
    for n in order:
        sx.check(names.count(n) <= 1, "callback-at-most-once-per-connection", info=dict(info, names=names))
    sx.check(names.count("onConnect") == 1 and names.count("onDisconnect") == 1, "connect-and-disconnect-exactly-once", info=dict(info, names=names))
    sx.check(names.count("onJoin") == (1 if joined_once else 0), "join-iff-welcomed", info=dict(info, names=names))
    sx.check(names.count("onLeave") == min(1, expect_leave), "leave-fired-exactly-when-a-joined-session-ends-or-router-aborts", info=dict(info, names=names, expect=expect_leave))
    evs = [e[1] for e in trace if e[0] == "S" and e[1].startswith("ev:")]
    sx.check(evs.count("ev:connect") == 1 and evs.count("ev:disconnect") <= 1, "observers-connect-disconnect-at-most-once", info=dict(info, evs=evs))
    if not raising:
        sx.check(evs.count("ev:disconnect") == 1, "observer-disconnect-once", info=dict(info, evs=evs))
    sx.check(evs.count("ev:join") == names.count("onJoin"), "observer-join-matches", info=dict(info, evs=evs))
    # ---- GOODBYE at most once per session
    sx.check(len([m for m in t.sent if isinstance(m, message.Goodbye)]) <= 1, "at-most-one-GOODBYE-sent", info=info)
    # ---- nothing left pending
    if outs:
        if react == "retry":
            sx.check("retry" in outs or "retry-raised" in outs, "errback-of-the-pending-call-ran", info=info)
            outs.pop("retry-raised", None)
            sx.cover("react:retry")
        for n, o in outs.items():
            sx.check(len(o.results) == 1 and o.results[0][0] == "err", "pending-request-completed-with-error", info=dict(info, request=n, results=repr(o.results)))
        sx.cover("pending:errbacked")
        for tn in ("_publish_reqs", "_subscribe_reqs", "_unsubscribe_reqs", "_call_reqs", "_register_reqs", "_unregister_reqs"):
            if hasattr(s, tn):
                sx.check(len(getattr(s, tn)) == 0, "pending-table-empty", info=dict(info, table=tn))
    # ---- API calls afterwards fail immediately
    for name, fn in (("call", lambda: s.call("com.x")), ("publish", lambda: s.publish("com.x", options=types.PublishOptions(acknowledge=True))),
                     ("subscribe", lambda: s.subscribe(lambda: None, "com.x")), ("register", lambda: s.register(lambda: None, "com.x"))):
        try:
            r = fn()
            sx.check(False, "api-after-end-fails-immediately", info=dict(info, api=name, returned=repr(r)))
        except TransportLost:
            pass
        except Exception as e:  # noqa
            sx.check(False, "api-after-end-raises-TransportLost", info=dict(info, api=name, exc=repr(e)))
    sx.cover("after:raises")
    return [log, names]


def _mk_on_challenge(trace, raises):
    def onChallenge(self, challenge):
        trace.append(("S", "onChallenge"))
        if raises:
            raise RuntimeError("user onChallenge fails")
        return "signature"
    return onChallenge


def _mk_on_leave_calling_leave(trace):
    def onLeave(self, details):
        # an application that says goodbye itself whenever it is told the session is over and the transport is still there
        trace.append(("S", "onLeave", details.reason))
        if self._transport is not None:
            try:
                self.leave()
            except Exception:  # noqa
                pass
        self.disconnect()
    return onLeave


def _mk_on_welcome(trace, raises):
    def onWelcome(self, msg):
        trace.append(("S", "onWelcome"))
        if raises:
            raise RuntimeError("user onWelcome fails")
        return None
    return onWelcome


def rejoin(sx, who_closes_first, second):
    """two consecutive sessions on one transport: GOODBYE rules hold per session"""
    from autobahn.wamp import message, role
    clock, trace, s, t = wamplib.joined_session(sx, session_id=1)
    roles = {"broker": role.RoleBrokerFeatures(), "dealer": role.RoleDealerFeatures()}
    t.close = lambda: trace.append(("T", "close-requested"))     # the application keeps the transport for a second session
    if who_closes_first == "us":
        s.leave()
        s.onMessage(message.Goodbye("wamp.close.goodbye_and_out"))
    else:
        s.onMessage(message.Goodbye("wamp.close.normal"))
    n1 = len([m for m in t.sent if isinstance(m, message.Goodbye)])
    sx.check(n1 == 1, "first-session:exactly-one-GOODBYE")
    s.join("realm1")
    s.onMessage(message.Welcome(2, roles))
    before = len([m for m in t.sent if isinstance(m, message.Goodbye)])
    if second == "router-goodbye":
        s.onMessage(message.Goodbye("wamp.close.normal"))
        sx.check(len([m for m in t.sent if isinstance(m, message.Goodbye)]) - before == 1, "second-session:peer-GOODBYE-answered")
    else:
        s.leave()
        sx.check(len([m for m in t.sent if isinstance(m, message.Goodbye)]) - before == 1, "second-session:leave-sends-GOODBYE")
        s.onMessage(message.Goodbye("wamp.close.goodbye_and_out"))
        sx.check(len([m for m in t.sent if isinstance(m, message.Goodbye)]) - before == 1, "second-session:no-second-GOODBYE")
    joins = [e for e in trace if e[0] == "S" and e[1] == "onJoin"]
    leaves = [e for e in trace if e[0] == "S" and e[1] == "onLeave"]
    sx.check(len(joins) == 2 and len(leaves) == 2, "two-sessions-two-joins-two-leaves")
    sx.cover("rejoin")
    return [who_closes_first, second]


def units(tier):
    U = []
    q = tier == "quick"
    K = 4 if q else 5
    for first in ("welcome", "challenge", "abort", "illegal", "leave", "lost", "goodbye", "disconnect"):
        for populate in (False, True):
            if populate and first != "welcome":
                continue
            for raising in (None, "onJoin", "onLeave", "onChallenge", "onWelcome", "onDisconnect"):
                if q and raising and populate:
                    continue
                if raising == "onChallenge" and first != "challenge":
                    continue
                U.append(("life/%s/%s/%s" % (first, "pend" if populate else "-", raising or "-"), "lifecycle",
                          dict(K=K, populate=populate, raising=raising, first=first), dict(weight=4 if first == "welcome" else 2)))
    for first in ("welcome",):
        for react in ("retry", "leave"):
            U.append(("react/%s/%s" % (first, react), "lifecycle", dict(K=K, populate=True, raising=None, first=first, react=react), dict(weight=4)))
    for a in ("us", "router"):
        for b in ("router-goodbye", "leave"):
            U.append(("rejoin/%s/%s" % (a, b), "rejoin", dict(who_closes_first=a, second=b)))
    return U
