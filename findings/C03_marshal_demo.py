"""Real-code demonstration (pre-fix 634ae0f7 / f72706ff): WELCOME loses authmethod unless authrole is set; PUBLISH with kwargs only
does not survive its own parse().  Run: PYTHONPATH=<tree>/src /venv/bin/python findings/C03_marshal_demo.py (exit 1 = defect present)"""
import sys
import txaio; txaio.use_twisted()
from autobahn.wamp import message, role
bad = 0
w = message.Welcome(1, {"broker": role.RoleBrokerFeatures()}, authmethod="wampcra")
w2 = message.Welcome.parse(w.marshal())
print("WELCOME authmethod", w.authmethod, "->", w2.authmethod); bad += w2.authmethod != "wampcra"
p = message.Publish(1, "com.t", kwargs={"k": 1})
try:
    p2 = message.Publish.parse(p.marshal()); print("PUBLISH kwargs-only ->", p2.kwargs)
except Exception as e:
    print("PUBLISH kwargs-only rejected by own parse:", e); bad += 1
sys.exit(1 if bad else 0)
