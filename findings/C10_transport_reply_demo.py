"""Real-code demonstration of three C10 defects (pre-fix 00a38617 / c1c724dc / ee7f8c93): an invocation whose result
cannot be serialized (Twisted RawSocket) or exceeds the peer's announced size limit (Twisted RawSocket/WebSocket success
path; asyncio RawSocket) got NO terminal reply.   Usage: PYTHONPATH=<tree>/src /venv/bin/python findings/C10_transport_reply_demo.py [twisted|asyncio]
exit 1 = some case without exactly one terminal reply."""
import struct, sys
fw = sys.argv[1] if len(sys.argv) > 1 else "twisted"
import txaio
if fw == "asyncio":
    import asyncio
    txaio.use_asyncio(); loop = asyncio.new_event_loop(); asyncio.set_event_loop(loop); txaio.config.loop = loop
    from autobahn.asyncio import rawsocket as rs
    from autobahn.asyncio.wamp import ApplicationSession
else:
    txaio.use_twisted()
    from autobahn.twisted import rawsocket as rs
    from autobahn.twisted.wamp import ApplicationSession
from autobahn.wamp import message, role, types
from autobahn.wamp.serializer import JsonSerializer

class T:
    def __init__(s): s.w = []
    def write(s, d): s.w.append(d)
    def loseConnection(s): pass
    abortConnection = close = abort = loseConnection
    def getPeer(s):
        from twisted.internet.address import IPv4Address
        return IPv4Address("TCP", "127.0.0.1", 1)
    getHost = getPeer
    def get_extra_info(s, n, d=None): return ("127.0.0.1", 1) if n in ("peername", "sockname") else d

def run(value):
    sess = []
    def fac():
        s = ApplicationSession(types.ComponentConfig("realm1")); s.onUserError = lambda *a: None; sess.append(s); return s
    f = rs.WampRawSocketClientFactory(fac, serializer=JsonSerializer())
    p = f.buildProtocol(None) if fw == "twisted" else f()
    t = T()
    (p.makeConnection if fw == "twisted" else p.connection_made)(t)
    rx = p.dataReceived if fw == "twisted" else p.data_received
    rx(bytes([0x7F, (0 << 4) | 1, 0, 0]))            # peer accepts at most 512 octets
    c = JsonSerializer()
    def feed(m):
        d, _ = c.serialize(m); rx(struct.pack("!I", len(d)) + d)
    feed(message.Welcome(1, {"broker": role.RoleBrokerFeatures(), "dealer": role.RoleDealerFeatures()}))
    s = sess[0]
    s.register(lambda: value, "com.p")
    if fw == "asyncio": loop.call_soon(loop.stop); loop.run_forever()
    t.w.clear()
    # find REGISTER id = 1
    feed(message.Registered(1, 600)); feed(message.Invocation(777, 600))
    if fw == "asyncio":
        for _ in range(3): loop.call_soon(loop.stop); loop.run_forever()
    data = b"".join(t.w); out = []; pos = 0
    while pos + 4 <= len(data):
        n = struct.unpack("!I", data[pos:pos+4])[0] & 0xFFFFFF; out += c.unserialize(data[pos+4:pos+4+n]); pos += 4 + n
    return [m for m in out if getattr(m, "request", None) == 777]

bad = 0
for name, v in (("un-serialisable", object()), ("oversize", "y" * 700)):
    r = run(v)
    print(fw, name, "->", [(type(m).__name__, getattr(m, "error", None)) for m in r])
    bad += len(r) != 1
sys.exit(1 if bad else 0)
