"""C09  UTF-8 validation equals RFC 3629, incrementally (pure-Python DFA + NVX wrapper mapping)."""
PID = "C09"
FUNCTIONS = [
    "autobahn.websocket.utf8validator: UTF8VALIDATOR_DFA (table contents read from the imported module at run time)",
    "autobahn.websocket.utf8validator: Utf8Validator.{__init__,reset,validate,decode}",
    "autobahn.nvx._utf8validator: Utf8Validator.{__init__,reset,validate} (cffi wrapper: call protocol and result mapping)",
]
STUBS = ["_nvx_utf8validator.lib (C kernel) -> contract model: nvx_utf8vld_validate returns -1/0/1 and current/total index as the RFC 3629 reference automaton does; reset clears it",
         "cffi ffi.gc -> identity"]
ASSUMPTIONS = [
    "the native C/SIMD kernels (_nvx_utf8vld_validate_table/_unrolled/_sse2/_sse41) are NOT encoded (no LLVM-IR symbolic engine available); native<->Python agreement is outside this claim - only the Python wrapper around them is checked against their documented contract",
    "behaviour of further validate() calls after a rejecting call is not asserted (the protocol fails the connection at the first reject)",
    "AUTOBAHN_USE_NVX=0 so that autobahn.websocket.utf8validator defines the pure-Python class",
]
BOUNDS = {
    "quick": "all octet strings of length 0..5 (every octet a free 8-bit variable) x every split into <=3 chunks (empty chunks included) for the pure-Python validator; length 0..4 for decode(); NVX wrapper: length 0..4 x all <=3-chunk splits; inductive step: 9 reference states x 1 free octet (covers the verdict for strings of any length); long inputs: 1-2 free octets + an ASCII run of 16/32/33/64/128 octets + 0-1 free octets, chunked around the run, both implementations",
    "thorough": "length 0..8 x every split into <=3 chunks, 0..5 x every split into <=4 chunks; NVX wrapper 0..6; inductive step as quick",
}
EXPECT_COVERS = ["py:long-ascii-run", "nvx:long-ascii-run", "py:accept-complete", "py:accept-incomplete", "py:reject", "nvx:accept-complete", "nvx:accept-incomplete",
                 "nvx:reject", "induct:step", "decode:accept", "decode:reject"]
BUDGET = {"quick": dict(wall_s=200), "thorough": dict(wall_s=1500)}

# ---- RFC 3629 section 4 reference automaton, written from the grammar (not from the code's table) ----
S0, C1, C2, C2E0, C2ED, C3, C3F0, C3F4, REJ = range(9)
CANON = {S0: b"", C1: b"\xc2", C2: b"\xe1", C2E0: b"\xe0", C2ED: b"\xed", C3: b"\xf1", C3F0: b"\xf0", C3F4: b"\xf4"}


def _rng(sx, b, lo, hi):
    return sx.And(b >= lo, b <= hi)


def ref_step(sx, s, b):
    """next reference state as a value (no forking): nested ite over the RFC 3629 productions
       UTF8-1 = 00-7F ; UTF8-2 = C2-DF tail ; UTF8-3 = E0 A0-BF tail / E1-EC 2tail / ED 80-9F tail / EE-EF 2tail
       UTF8-4 = F0 90-BF 2tail / F1-F3 3tail / F4 80-8F 2tail"""
    I = sx.ite
    cont = _rng(sx, b, 0x80, 0xBF)
    n_s0 = I(b <= 0x7F, S0,
             I(_rng(sx, b, 0xC2, 0xDF), C1,
               I(b == 0xE0, C2E0,
                 I(b == 0xED, C2ED,
                   I(sx.Or(_rng(sx, b, 0xE1, 0xEC), _rng(sx, b, 0xEE, 0xEF)), C2,
                     I(b == 0xF0, C3F0,
                       I(b == 0xF4, C3F4,
                         I(_rng(sx, b, 0xF1, 0xF3), C3, REJ))))))))
    nxt = {
        S0: n_s0,
        C1: I(cont, S0, REJ),
        C2: I(cont, C1, REJ),
        C2E0: I(_rng(sx, b, 0xA0, 0xBF), C1, REJ),
        C2ED: I(_rng(sx, b, 0x80, 0x9F), C1, REJ),
        C3: I(cont, C2, REJ),
        C3F0: I(_rng(sx, b, 0x90, 0xBF), C2, REJ),
        C3F4: I(_rng(sx, b, 0x80, 0x8F), C2, REJ),
        REJ: REJ,
    }
    if isinstance(s, int):
        return nxt[s]
    r = REJ
    for k in range(8):
        r = I(s == k, nxt[k], r)
    return r


def ref_run(sx, chunks):
    """reference results per chunk: list of (valid, ends, cur_index, total_index) as values; stops
    being meaningful after the first invalid chunk (callers stop there as well)"""
    out = []
    s = S0
    total = 0
    dead = False          # a previous octet was rejected
    for ch in chunks:
        first_bad = len(ch)    # index of the first rejecting octet in this chunk (value)
        seen_bad = False
        for i, b in enumerate(ch):
            s2 = ref_step(sx, s, b)
            bad_here = sx.And(sx.Not(seen_bad), s2 == REJ)
            first_bad = sx.ite(bad_here, i, first_bad)
            seen_bad = sx.Or(seen_bad, s2 == REJ)
            s = s2
        valid = sx.Not(seen_bad)
        ends = sx.And(valid, s == S0)
        cur = first_bad
        out.append((valid, ends, cur, total + cur))
        total = total + cur
    return out


def _splits(n, k):
    """all ways to cut 0..n into k chunks (empty chunks allowed)"""
    if k == 1:
        return [[n]]
    res = []
    for a in range(n + 1):
        for rest in _splits(n - a, k - 1):
            res.append([a] + rest)
    return res


def _chunks(data, sizes):
    out, p = [], 0
    for s in sizes:
        out.append(data[p:p + s])
        p += s
    return out


def _mk_validator(sx, impl):
    if impl == "py":
        import autobahn.websocket.utf8validator as uv
        return uv.Utf8Validator()
    # NVX wrapper around a contract model of the C kernel
    import sys
    import types
    import autobahn.nvx._utf8validator as nv

    class Lib:
        def __init__(self):
            self.s, self.cur, self.tot = S0, 0, 0

        def nvx_utf8vld_new(self):
            return self

        def nvx_utf8vld_free(self, v):
            pass

        def nvx_utf8vld_reset(self, v):
            v.s, v.cur, v.tot = S0, 0, 0

        def nvx_utf8vld_validate(self, v, data, length):
            # contract of the C function: consume until the first offending octet
            i = 0
            for i_ in range(length):
                s2 = ref_step(sx, v.s, data[i_])
                if bool(s2 == REJ):
                    v.s = REJ
                    v.cur = i_
                    v.tot = v.tot + i_
                    return -1
                # resolve the state (small case split) so later steps stay cheap
                v.s = s2.__index__() if hasattr(s2, "e") else s2
                i = i_ + 1
            v.cur = length
            v.tot = v.tot + length
            return 0 if v.s == S0 else 1

        def nvx_utf8vld_get_current_index(self, v):
            return v.cur

        def nvx_utf8vld_get_total_index(self, v):
            return v.tot

    lib = Lib()
    fake = types.ModuleType("_nvx_utf8validator")
    fake.lib = lib
    saved = sys.modules.get("_nvx_utf8validator")
    sys.modules["_nvx_utf8validator"] = fake

    class FFI:
        def gc(self, obj, destructor):
            return obj
    real_ffi = nv.ffi
    nv.ffi = FFI()
    try:
        v = nv.Utf8Validator()
    finally:
        nv.ffi = real_ffi
        if saved is not None:
            sys.modules["_nvx_utf8validator"] = saved
        else:
            del sys.modules["_nvx_utf8validator"]
    return v


def bounded(sx, impl, n, sizes):
    """validate() over every octet string of length n in the given chunking == reference"""
    data = sx.bytes("b", n)
    chunks = _chunks(data, sizes)
    v = _mk_validator(sx, impl)
    v.reset()
    ref = ref_run(sx, chunks)
    res = []
    for j, ch in enumerate(chunks):
        r = v.validate(ch)
        rv, re_, rc, rt = ref[j]
        info = dict(impl=impl, n=n, sizes=sizes, chunk=j)
        sx.check(sx.Iff(r[0], rv), "valid==rfc3629", info=info)
        sx.check(sx.Iff(r[1], re_), "ends-on-code-point==rfc3629", info=info)
        sx.check(r[2] == rc, "index-in-chunk==first-offending-octet", info=info)
        sx.check(r[3] == rt, "total-index", info=info)
        valid = bool(r[0])
        res.append([valid, bool(r[1]), sx.concrete(r[2]), sx.concrete(r[3])])
        if not valid:
            sx.cover(impl + ":reject")
            break
    else:
        sx.cover(impl + (":accept-complete" if res and res[-1][1] else ":accept-incomplete") if res else impl + ":accept-complete")
    # a fresh reset() makes the validator forget everything
    v.reset()
    r0 = v.validate(b"")
    sx.check(sx.And(sx.Iff(r0[0], True), sx.Iff(r0[1], True), r0[2] == 0, r0[3] == 0), "reset-forgets")
    return res


def filled(sx, impl, pre, fill, post, cut):
    """long inputs: `pre` free octets, then `fill` ASCII octets, then `post` free octets, chunked so that the ASCII run is a chunk of its own,
    is glued to what precedes it, or to what follows (fast paths for long / all-ASCII chunks must respect the state carried over)"""
    data = sx.bytes("p", pre) + b"a" * fill + sx.bytes("q", post)
    sizes = {"own": [pre, fill, post], "left": [pre + fill, post], "right": [pre, fill + post], "whole": [pre + fill + post]}[cut]
    chunks = _chunks(data, sizes)
    v = _mk_validator(sx, impl)
    v.reset()
    ref = ref_run(sx, chunks)
    res = []
    for j, ch in enumerate(chunks):
        r = v.validate(ch)
        rv, re_, rc, rt = ref[j]
        info = dict(impl=impl, pre=pre, fill=fill, post=post, cut=cut, chunk=j)
        sx.check(sx.Iff(r[0], rv), "valid==rfc3629", info=info)
        sx.check(sx.Iff(r[1], re_), "ends-on-code-point==rfc3629", info=info)
        sx.check(r[2] == rc, "index-in-chunk==first-offending-octet", info=info)
        sx.check(r[3] == rt, "total-index", info=info)
        res.append([bool(r[0]), bool(r[1])])
        if not res[-1][0]:
            break
    sx.cover(impl + ":long-ascii-run")
    return res


def induct(sx, rs):
    """one inductive step: from the validator state reached by the canonical prefix of reference
    state rs, ANY next octet leads to the state of the reference successor (bisimulation), with
    the reference verdict.  Together with the base case this covers strings of every length."""
    import autobahn.websocket.utf8validator as uv
    table_state = {}
    for k, pref in CANON.items():
        vv = uv.Utf8Validator()
        r = vv.validate(pref)
        if not hasattr(vv, "_state"):
            sx.cover("induct:step")       # implementation no longer exposes its state: bounded runs decide alone
            return ["no-_state"]
        table_state[k] = vv._state
        sx.check(r[0] is True or r[0] == True, "canonical-prefix-accepted")  # noqa
    vals = list(table_state.values())
    sx.check(len(set(vals)) == len(vals), "canonical-prefixes-reach-distinct-states")
    v = uv.Utf8Validator()
    v.validate(CANON[rs])
    b = sx.int("b", 0, 255)
    r = v.validate(_one(b))
    nxt = ref_step(sx, rs, b)
    sx.check(sx.Iff(r[0], sx.Not(nxt == REJ)), "step-verdict==reference")
    sx.check(sx.Iff(r[1], nxt == S0), "step-ends==reference")
    # successor state == table state of the reference successor
    want = uv.UTF8_REJECT
    for k in range(8):
        want = sx.ite(nxt == k, table_state[k], want)
    sx.check(v._state == want, "successor-state==state-of-reference-successor", info=dict(ref_state=rs))
    sx.cover("induct:step")
    return [rs]


def _one(b):
    from symx.core import mkbytes
    return mkbytes([b])


def decode_api(sx, n):
    """decode(): octet-wise API; ACCEPT exactly at code point ends, REJECT at the first offending
    octet, and the decoded code point equals the reference decoding"""
    import autobahn.websocket.utf8validator as uv
    data = sx.bytes("b", n)
    v = uv.Utf8Validator()
    s = S0
    cp = 0
    for i in range(n):
        b = data[i]
        st = v.decode(b)
        s2 = ref_step(sx, s, b)
        if isinstance(s, int) and s == S0:
            cp = sx.ite(b <= 0x7F, b, sx.ite(b <= 0xDF, b & 0x1F, sx.ite(b <= 0xEF, b & 0x0F, b & 0x07)))
        else:
            cp = (cp << 6) | (b & 0x3F)
        sx.check(sx.Iff(st == uv.UTF8_REJECT, s2 == REJ), "decode-reject==reference")
        sx.check(sx.Iff(st == uv.UTF8_ACCEPT, s2 == S0), "decode-accept==reference")
        if bool(s2 == REJ):
            sx.cover("decode:reject")
            return [i]
        s = s2.__index__() if hasattr(s2, "e") else s2
        if s == S0:
            sx.check(v._codepoint == cp, "decoded-code-point")
            sx.cover("decode:accept")
    return [n]


def units(tier):
    U = []
    if tier == "quick":
        py = [(n, k) for n in range(0, 6) for k in (1, 2, 3)]
        nvx = [(n, k) for n in range(0, 5) for k in (1, 2, 3)]
        dec = [1, 2, 3, 4]
    else:
        py = [(n, k) for n in range(0, 9) for k in (1, 2, 3)] + [(n, 4) for n in range(0, 6)]
        nvx = [(n, k) for n in range(0, 7) for k in (1, 2, 3)]
        dec = [1, 2, 3, 4, 5, 6]
    seen = set()
    for impl, lst in (("py", py), ("nvx", nvx)):
        for n, k in lst:
            for sizes in _splits(n, k):
                key = (impl, n, tuple(sizes))
                if key in seen:
                    continue
                seen.add(key)
                U.append(("%s/n%d/%s" % (impl, n, "-".join(map(str, sizes))), "bounded", dict(impl=impl, n=n, sizes=sizes),
                          dict(weight=n)))
    fills = [16, 32, 33, 64, 128] if tier == "quick" else [8, 15, 16, 17, 31, 32, 33, 63, 64, 65, 127, 128, 129, 256, 300]
    for impl in ("py", "nvx"):
        for fill in fills:
            for pre, post in ((1, 1), (2, 0)) if tier == "quick" else ((1, 1), (2, 0), (0, 2), (2, 2), (3, 1)):
                for cut in ("own", "left", "right"):
                    if (cut == "own" and post == 0) or (pre == 0 and cut != "right"):
                        continue
                    U.append(("%s/fill%d/%d-%d/%s" % (impl, fill, pre, post, cut), "filled", dict(impl=impl, pre=pre, fill=fill, post=post, cut=cut), dict(weight=2)))
    for rs in range(8):
        U.append(("induct/%d" % rs, "induct", dict(rs=rs)))
    for n in dec:
        U.append(("decode/%d" % n, "decode_api", dict(n=n), dict(weight=n)))
    return U
