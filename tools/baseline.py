#!/usr/bin/env python3
"""Run the pinned baseline test suite in a tree (default /repo) and compare the set of passing
tests with /root/.vp/BASELINE.json stable_pass.  Usage: baseline.py [tree]
Exit 0 iff every stable_pass test passes."""
import json, os, subprocess, sys, tempfile, xml.etree.ElementTree as ET

tree = os.path.abspath(sys.argv[1] if len(sys.argv) > 1 else "/repo")
base = json.load(open("/root/.vp/BASELINE.json"))
want = set(base["stable_pass"])
with tempfile.TemporaryDirectory() as td:
    xmlf = os.path.join(td, "j.xml")
    env = dict(os.environ)
    env["PYTHONPATH"] = os.path.join(tree, "src")
    env.pop("CROSSBARIO_AUTOBAHN_PYTHON_VERIF", None)
    subprocess.run(["/venv/bin/python", "-m", "pytest", "-ra", "-q", "-p", "no:cacheprovider", "--timeout=900",
                    "--continue-on-collection-errors", "--junitxml=" + xmlf], cwd=tree, env=env,
                   stdout=subprocess.DEVNULL, stderr=subprocess.DEVNULL)
    passed = set()
    for tc in ET.parse(xmlf).getroot().iter("testcase"):
        if not any(ch.tag in ("failure", "error", "skipped") for ch in tc):
            passed.add(tc.get("classname") + "::" + tc.get("name"))
missing = sorted(want - passed)
print("tree=%s passed=%d stable_pass=%d missing=%d" % (tree, len(passed), len(want), len(missing)))
for m in missing[:20]:
    print("  MISSING", m)
sys.exit(1 if missing else 0)
