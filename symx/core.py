"""SYMX core: z3-backed proxy values and the path-exploration context.

Two modes share every harness:
  * SYM  - inputs drawn through `Sx` are z3-backed proxies; `bool(proxy)` forks the path
           (solver-checked), `sx.check(cond)` asks z3 for `path AND NOT cond`.
  * CONC - inputs are plain Python values taken from a replay/sample dictionary; the very same
           harness and oracle run on the plain (or instrumented) import of the repository.

Nothing in here silently picks a concrete value for a symbolic one: operations without a
model raise `Unsupported`, which makes the work unit inconclusive (exit code 3), never "ok".
"""
import time
import z3

MODE_SYM = "sym"
MODE_CONC = "conc"


class Unsupported(Exception):
    """an operation on a symbolic value has no model: path is inconclusive"""


class PathAbort(BaseException):
    """path is infeasible / ends here (BaseException: real code must not swallow it)"""


class Budget(BaseException):
    """path/time budget exhausted: unit inconclusive"""


def bits_for(lo, hi):
    w = 1
    while not (-(1 << (w - 1)) <= lo and hi <= (1 << (w - 1)) - 1):
        w += 1
    return w


# ------------------------------------------------------------------------------------------
# proxies
# ------------------------------------------------------------------------------------------
class SymBool:
    __slots__ = ("e",)

    def __init__(self, e):
        self.e = e

    def __bool__(self):
        return CTX.fork(self.e)

    def __and__(self, o):
        return mkbool(z3.And(self.e, tobool(o)))

    __rand__ = __and__

    def __or__(self, o):
        return mkbool(z3.Or(self.e, tobool(o)))

    __ror__ = __or__

    def __xor__(self, o):
        return mkbool(z3.Xor(self.e, tobool(o)))

    __rxor__ = __xor__

    def __invert__(self):
        return mkbool(z3.Not(self.e))

    def __eq__(self, o):
        if isinstance(o, (bool, SymBool)):
            return mkbool(self.e == tobool(o))
        if isinstance(o, (int, SymInt)):
            return SymInt.lift(self) == o
        return False

    def __ne__(self, o):
        r = self.__eq__(o)
        return (not r) if isinstance(r, bool) else ~r

    def __int__(self):
        return 1 if bool(self) else 0

    __index__ = __int__

    def __hash__(self):
        raise Unsupported("hash(SymBool)")

    def __repr__(self):
        return "<SymBool>"

    def __format__(self, spec):
        return format(bool(self), spec)


def mkbool(e):
    if z3.is_true(e):
        return True
    if z3.is_false(e):
        return False
    return SymBool(e)


def tobool(o):
    if isinstance(o, SymBool):
        return o.e
    if isinstance(o, bool):
        return z3.BoolVal(o)
    if isinstance(o, SymInt):
        return (o != 0).e if isinstance(o != 0, SymBool) else z3.BoolVal(bool(o != 0))
    if isinstance(o, int):
        return z3.BoolVal(o != 0)
    raise Unsupported("tobool %r" % (type(o),))


_CONST_CACHE = {}


class SymInt:
    """Python int as a signed bit-vector whose width always contains the value (every
    operation widens), plus a conservative interval [lo, hi] used to size widths."""
    __slots__ = ("e", "lo", "hi", "w", "origin")

    def __init__(self, e, lo, hi, w=None):
        self.e, self.lo, self.hi = e, lo, hi
        self.w = e.size() if w is None else w
        self.origin = None          # ("mod"|"div", dividend, constant) for results of division by a constant (lets oracles compare operands)

    @staticmethod
    def lift(o):
        if isinstance(o, SymInt):
            return o
        if isinstance(o, SymBool):
            return SymInt(z3.If(o.e, z3.BitVecVal(1, 2), z3.BitVecVal(0, 2)), 0, 1)
        if isinstance(o, bool):
            o = int(o)
        if isinstance(o, int):
            c = _CONST_CACHE.get(o)
            if c is None:
                w = bits_for(o, o)
                c = SymInt(z3.BitVecVal(o, w), o, o, w)
                if len(_CONST_CACHE) < 4096:
                    _CONST_CACHE[o] = c
            return c
        raise Unsupported("lift %r" % (type(o),))

    def ext(self, w):
        if w == self.w:
            return self.e
        if w < self.w:
            raise Unsupported("narrowing")
        return z3.SignExt(w - self.w, self.e)

    def _bin(self, o, f, lo, hi):
        if lo == hi:
            return lo
        w = max(bits_for(lo, hi), self.w, o.w)
        return SymInt(f(self.ext(w), o.ext(w)), lo, hi, w)

    def _lift_or_ni(self, o):
        if isinstance(o, (int, SymInt, SymBool)):
            return SymInt.lift(o)
        return None

    def __add__(self, o):
        o = self._lift_or_ni(o)
        if o is None:
            return NotImplemented
        return self._bin(o, lambda a, b: a + b, self.lo + o.lo, self.hi + o.hi)

    __radd__ = __add__

    def __sub__(self, o):
        o = self._lift_or_ni(o)
        if o is None:
            return NotImplemented
        return self._bin(o, lambda a, b: a - b, self.lo - o.hi, self.hi - o.lo)

    def __rsub__(self, o):
        o = self._lift_or_ni(o)
        if o is None:
            return NotImplemented
        return o.__sub__(self)

    def __mul__(self, o):
        o = self._lift_or_ni(o)
        if o is None:
            return NotImplemented
        c = [self.lo * o.lo, self.lo * o.hi, self.hi * o.lo, self.hi * o.hi]
        return self._bin(o, lambda a, b: a * b, min(c), max(c))

    __rmul__ = __mul__

    def __and__(self, o):
        o = self._lift_or_ni(o)
        if o is None:
            return NotImplemented
        if self.lo >= 0 and o.lo >= 0:
            lo, hi = 0, min(self.hi, o.hi)
        elif o.lo >= 0:
            lo, hi = 0, o.hi
        elif self.lo >= 0:
            lo, hi = 0, self.hi
        else:
            m = max(self.w, o.w)
            lo, hi = -(1 << (m - 1)), (1 << (m - 1)) - 1
        return self._bin(o, lambda a, b: a & b, lo, hi)

    __rand__ = __and__

    def _orxor(self, o, f):
        o = self._lift_or_ni(o)
        if o is None:
            return NotImplemented
        m = max(self.w, o.w)
        if self.lo >= 0 and o.lo >= 0:
            # result < 2^k where k bits hold both
            k = max(self.hi.bit_length(), o.hi.bit_length())
            lo, hi = 0, (1 << k) - 1
        else:
            lo, hi = -(1 << (m - 1)), (1 << (m - 1)) - 1
        return self._bin(o, f, lo, hi)

    def __or__(self, o):
        return self._orxor(o, lambda a, b: a | b)

    __ror__ = __or__

    def __xor__(self, o):
        return self._orxor(o, lambda a, b: a ^ b)

    __rxor__ = __xor__

    def __lshift__(self, c):
        if isinstance(c, SymInt):
            c = c.__index__()
        lo, hi = self.lo << c, self.hi << c
        w = max(bits_for(lo, hi), self.w)
        return mkint(SymInt(self.ext(w) << c, lo, hi))

    def __rlshift__(self, o):
        # concrete << symbolic: case split on the (small) shift amount
        return SymInt.lift(o) << self.__index__()

    def __rshift__(self, c):
        if isinstance(c, SymInt):
            c = c.__index__()
        return mkint(SymInt(self.e >> c, self.lo >> c, self.hi >> c))

    def __rrshift__(self, o):
        return SymInt.lift(o) >> self.__index__()

    def _divmod_const(self, c):
        if isinstance(c, SymInt):
            if c.lo == c.hi:
                c = c.lo
            else:
                c = c.__index__()
        if not isinstance(c, int) or isinstance(c, bool):
            raise Unsupported("divmod by %r" % (type(c),))
        if c <= 0:
            raise Unsupported("divmod by non-positive constant")
        w = max(self.w, bits_for(c, c)) + 1
        a = self.ext(w)
        cv = z3.BitVecVal(c, w)
        if self.lo >= 0:
            q, r = z3.UDiv(a, cv), z3.URem(a, cv)
        else:
            # python floor semantics from truncating signed ops
            qt, rt = a / cv, z3.SRem(a, cv)
            adj = z3.And(rt != 0, a < 0)
            q = z3.If(adj, qt - 1, qt)
            r = z3.If(adj, rt + cv, rt)
        qq = mkint(SymInt(q, self.lo // c, self.hi // c))
        rr = mkint(SymInt(r, 0, min(max(abs(self.lo), abs(self.hi)), c - 1) if self.lo >= 0 else c - 1))
        if isinstance(qq, SymInt):
            qq.origin = ("div", self, c)
        if isinstance(rr, SymInt):
            rr.origin = ("mod", self, c)
        return qq, rr

    def __mod__(self, c):
        return self._divmod_const(c)[1]

    def __floordiv__(self, c):
        return self._divmod_const(c)[0]

    def __divmod__(self, c):
        return self._divmod_const(c)

    def __truediv__(self, c):
        raise Unsupported("true division of symbolic int (float)")

    def __pow__(self, c):
        if isinstance(c, int) and 0 <= c <= 4:
            r = 1
            for _ in range(c):
                r = self * r
            return r
        raise Unsupported("pow")

    def __rpow__(self, base):
        # base ** sym : case split on small exponent
        return base ** self.__index__()

    def __neg__(self):
        return SymInt.lift(0) - self

    def __pos__(self):
        return self

    def __abs__(self):
        if self.lo >= 0:
            return self
        return ite(self < 0, -self, self)

    def __invert__(self):
        return (-self) - 1

    def _cmp(self, o, f):
        if isinstance(o, float):
            raise Unsupported("int/float comparison")
        o = self._lift_or_ni(o)
        if o is None:
            return NotImplemented
        w = max(self.w, o.w)
        return mkbool(f(self.ext(w), o.ext(w)))

    def __eq__(self, o):
        if isinstance(o, float):
            if o != o or o in (float("inf"), float("-inf")) or o != int(o):
                return False
            o = int(o)
        r = self._cmp(o, lambda a, b: a == b) if isinstance(o, (int, SymInt, SymBool)) else NotImplemented
        return False if r is NotImplemented else r

    def __ne__(self, o):
        r = self.__eq__(o)
        return (not r) if isinstance(r, bool) else ~r

    def _fcmp(self, o, op):
        # comparison against a concrete float: translate to an integer bound
        import math
        if o != o:
            return False
        if op == "<":   # self < o  <=> self <= ceil(o)-1
            return self <= (math.ceil(o) - 1) if o not in (float("inf"), float("-inf")) else o > 0
        if op == "<=":
            return self <= math.floor(o) if o not in (float("inf"), float("-inf")) else o > 0
        if op == ">":
            return self >= (math.floor(o) + 1) if o not in (float("inf"), float("-inf")) else o < 0
        if op == ">=":
            return self >= math.ceil(o) if o not in (float("inf"), float("-inf")) else o < 0

    def __lt__(self, o):
        if isinstance(o, float):
            return self._fcmp(o, "<")
        return self._cmp(o, lambda a, b: a < b)

    def __le__(self, o):
        if isinstance(o, float):
            return self._fcmp(o, "<=")
        return self._cmp(o, lambda a, b: a <= b)

    def __gt__(self, o):
        if isinstance(o, float):
            return self._fcmp(o, ">")
        return self._cmp(o, lambda a, b: a > b)

    def __ge__(self, o):
        if isinstance(o, float):
            return self._fcmp(o, ">=")
        return self._cmp(o, lambda a, b: a >= b)

    def __bool__(self):
        return bool(self != 0)

    def __index__(self):
        return CTX.concretize(self)

    __int__ = __index__

    def __float__(self):
        raise Unsupported("float(SymInt)")

    def __hash__(self):
        raise Unsupported("hash(SymInt): symbolic value used as a dict/set key outside an instrumented access")

    def bit_length(self):
        raise Unsupported("bit_length")

    def to_bytes(self, n, byteorder="big", *, signed=False):
        if signed:
            raise Unsupported("to_bytes signed")
        if self.lo < 0 or self.hi >= (1 << (8 * n)):
            if not bool((self >= 0) & (self < (1 << (8 * n)))):
                raise OverflowError("int too big to convert")
        w = 8 * n + 1
        e = self.ext(w) if w >= self.w else z3.Extract(w - 1, 0, self.e)
        bs = [mkint(SymInt(z3.ZeroExt(1, z3.Extract(8 * k + 7, 8 * k, e)), 0, 255)) for k in range(n)]
        if byteorder == "big":
            bs.reverse()
        return mkbytes(bs)

    def _fmt_value(self):
        # a symbolic int rendered as text: exact (case split) when few values are possible,
        # otherwise an opaque tag (recorded: evidence lists it as an assumption)
        if self.hi - self.lo < CTX.fmt_split_cap:
            return self.__index__()
        CTX.opaque_fmt += 1
        return None

    def __format__(self, spec):
        import re as _re
        m = _re.fullmatch(r"0(\d+)d", spec or "")
        if m and self.lo >= 0 and self.hi < 10 ** int(m.group(1)):
            n = int(m.group(1))
            return SymDecimal(self, n)                                                     # exact zero-padded decimal digits
        v = self._fmt_value()
        return format(v, spec) if v is not None else "<sym>"

    def __str__(self):
        v = self._fmt_value()
        return str(v) if v is not None else "<sym>"

    def __repr__(self):
        return "<SymInt w=%d [%d,%d]>" % (self.w, self.lo, self.hi)


class SymKey(SymInt):
    """a SymInt that has been stored as a dict key by an instrumented store; hashable by identity.
    Look-ups through instrumented code compare by value (solver forks)."""
    __slots__ = ()

    def __hash__(self):
        return id(self)


def mkint(x):
    """collapse a SymInt whose expression is a constant to a python int"""
    if isinstance(x, SymInt):
        if x.lo == x.hi:
            return x.lo
        if z3.is_bv_value(x.e):
            return x.e.as_signed_long()
    return x


def ite(c, a, b):
    """value-level if-then-else that does not fork when c is symbolic and a, b are ints/bools"""
    if isinstance(c, bool):
        return a if c else b
    if isinstance(c, SymBool):
        if isinstance(a, (bool, SymBool)) and isinstance(b, (bool, SymBool)):
            return mkbool(z3.If(c.e, tobool(a), tobool(b)))
        if isinstance(a, (int, SymInt)) and isinstance(b, (int, SymInt)):
            a, b = SymInt.lift(a), SymInt.lift(b)
            w = max(a.w, b.w)
            return mkint(SymInt(z3.If(c.e, a.ext(w), b.ext(w)), min(a.lo, b.lo), max(a.hi, b.hi)))
    return a if c else b


class SymBytes:
    """bytes of concrete length; items are python ints or SymInt in 0..255"""
    __slots__ = ("items",)

    def __init__(self, items):
        self.items = list(items)

    def __len__(self):
        return len(self.items)

    def __getitem__(self, i):
        if isinstance(i, slice):
            if isinstance(i.start, SymInt) and isinstance(i.stop, SymInt) and i.step is None:
                # data[o:o+n] with a symbolic offset and a constant width: select octets by table look-up instead of forking on o
                d = i.stop - i.start
                n = d if isinstance(d, int) else CTX.concretize(d)      # one value when the width is constant (solver-checked)
                if 0 <= n <= 64 and i.start.lo >= 0 and i.start.hi + n <= len(self.items):
                    return mkbytes([select_table(self.items, i.start + k) for k in range(n)])
            if any(isinstance(x, SymInt) for x in (i.start, i.stop, i.step)):
                i = slice(*[x.__index__() if isinstance(x, SymInt) else x for x in (i.start, i.stop, i.step)])
            return mkbytes(self.items[i])
        if isinstance(i, SymInt):
            return select_table(self.items, i)
        return self.items[i]

    def __iter__(self):
        return iter(self.items)

    def __add__(self, o):
        if isinstance(o, (bytes, bytearray)):
            return mkbytes(self.items + list(o))
        if isinstance(o, SymBytes):
            return mkbytes(self.items + o.items)
        return NotImplemented

    def __radd__(self, o):
        if isinstance(o, (bytes, bytearray)):
            return mkbytes(list(o) + self.items)
        return NotImplemented

    def __mul__(self, k):
        return mkbytes(self.items * int(k))

    def __eq__(self, o):
        if isinstance(o, (bytes, bytearray, SymBytes)):
            if len(o) != len(self):
                return False
            conds = []
            for a, b in zip(self.items, list(o)):
                r = (a == b)
                if r is False:
                    return False
                if r is True:
                    continue
                conds.append(r.e)
            if not conds:
                return True
            return mkbool(z3.And(*conds))
        return False

    def __ne__(self, o):
        r = self.__eq__(o)
        return (not r) if isinstance(r, bool) else ~r

    def __bool__(self):
        return len(self.items) > 0

    def __hash__(self):
        raise Unsupported("hash(SymBytes)")

    def __contains__(self, x):
        if isinstance(x, (bytes, SymBytes)):
            return self.find(x) >= 0
        for it in self.items:
            if bool(it == x):
                return True
        return False

    # --- bytes API subset ---------------------------------------------------------------
    def _match_at(self, needle, pos):
        return self[pos:pos + len(needle)] == needle

    def find(self, needle, start=0, end=None):
        end = len(self.items) if end is None else min(end, len(self.items))
        n = len(needle)
        for p in range(start, end - n + 1):
            if bool(self._match_at(needle, p)):
                return p
        return -1

    def isascii(self):
        """one fork on the conjunction (bytes.isascii() is True for the empty string)"""
        conds = [it < 0x80 for it in self.items if not isinstance(it, int)]
        if any(isinstance(it, int) and it >= 0x80 for it in self.items):
            return False
        if not conds:
            return True
        return bool(mkbool(z3.And(*[tobool(c) for c in conds])))

    def startswith(self, p):
        if isinstance(p, tuple):
            return any(self.startswith(x) for x in p)
        return len(p) <= len(self) and bool(self._match_at(p, 0))

    def endswith(self, p):
        if isinstance(p, tuple):
            return any(self.endswith(x) for x in p)
        return len(p) <= len(self) and bool(self._match_at(p, len(self) - len(p)))

    def split(self, sep=None, maxsplit=-1):
        if sep is None:
            raise Unsupported("SymBytes.split(None)")
        out, cur, n = [], 0, 0
        while maxsplit < 0 or n < maxsplit:
            p = self.find(sep, cur)
            if p < 0:
                break
            out.append(self[cur:p])
            cur = p + len(sep)
            n += 1
        out.append(self[cur:])
        return out

    def splitlines(self):
        raise Unsupported("SymBytes.splitlines")

    def strip(self, chars=None):
        ws = b" \t\n\r\x0b\x0c" if chars is None else chars
        items = list(self.items)

        def is_ws(x):
            r = False
            for w in ws:
                r = (x == w) if r is False else (r | (x == w))
            return bool(r)
        while items and is_ws(items[-1]):
            items.pop()
        while items and is_ws(items[0]):
            items.pop(0)
        return mkbytes(items)

    def rstrip(self, chars=None):
        ws = b" \t\n\r\x0b\x0c" if chars is None else chars
        items = list(self.items)
        while items and bool(_any_eq(items[-1], ws)):
            items.pop()
        return mkbytes(items)

    def decode(self, enc="utf-8", errors="strict"):
        enc = enc.lower().replace("-", "").replace("_", "")
        if enc in ("latin1", "iso88591"):
            return mkstr(self.items)
        if enc in ("utf8",) and errors == "strict":
            return utf8_decode(self)
        if enc in ("utf8",) and errors == "ignore":
            return utf8_decode(self, ignore_truncated_tail=True)
        if enc == "ascii" and errors == "strict":
            for k, it in enumerate(self.items):
                if not bool(it < 128):
                    raise UnicodeDecodeError("ascii", b"?", k, k + 1, "ordinal not in range(128)")
            return mkstr(self.items)
        raise Unsupported("SymBytes.decode(%s,%s)" % (enc, errors))

    def hex(self):
        raise Unsupported("SymBytes.hex")

    def __repr__(self):
        return "<SymBytes n=%d>" % len(self.items)

    def concrete(self, model):
        return bytes(CTX.eval_int(model, x) for x in self.items)


def _any_eq(x, values):
    r = False
    for w in values:
        r = (x == w) if r is False else (r | (x == w))
    return r


def mkbytes(items):
    items = [mkint(x) if isinstance(x, SymInt) else x for x in items]
    if all(isinstance(x, int) for x in items):
        return bytes(items)
    return SymBytes(items)


class SymStr:
    """str of concrete length; items are code points (python int or SymInt)"""
    __slots__ = ("items",)

    def __init__(self, items):
        self.items = list(items)

    def __len__(self):
        return len(self.items)

    def __iter__(self):
        for it in self.items:
            yield mkstr([it])

    def __getitem__(self, i):
        if isinstance(i, slice):
            return mkstr(self.items[i])
        return mkstr([self.items[i]])

    def __add__(self, o):
        if isinstance(o, str):
            return mkstr(self.items + [ord(c) for c in o])
        if isinstance(o, SymStr):
            return mkstr(self.items + o.items)
        return NotImplemented

    def __radd__(self, o):
        if isinstance(o, str):
            return mkstr([ord(c) for c in o] + self.items)
        return NotImplemented

    def __eq__(self, o):
        if isinstance(o, str):
            o = SymStr([ord(c) for c in o])
        if isinstance(o, SymStr):
            if len(o) != len(self):
                return False
            conds = []
            for a, b in zip(self.items, o.items):
                r = (a == b)
                if r is False:
                    return False
                if r is True:
                    continue
                conds.append(r.e)
            return mkbool(z3.And(*conds)) if conds else True
        return False

    def __ne__(self, o):
        r = self.__eq__(o)
        return (not r) if isinstance(r, bool) else ~r

    def __bool__(self):
        return len(self.items) > 0

    def __hash__(self):
        raise Unsupported("hash(SymStr)")

    def encode(self, enc="utf-8", errors="strict"):
        enc = enc.lower().replace("-", "").replace("_", "")
        if enc == "utf8" and errors == "strict":
            return utf8_encode(self)
        if enc in ("latin1", "iso88591"):
            for k, it in enumerate(self.items):
                if not bool(it < 256):
                    raise UnicodeEncodeError("latin-1", "?", k, k + 1, "ordinal not in range(256)")
            return mkbytes(self.items)
        if enc == "ascii":
            for k, it in enumerate(self.items):
                if not bool(it < 128):
                    raise UnicodeEncodeError("ascii", "?", k, k + 1, "ordinal not in range(128)")
            return mkbytes(self.items)
        raise Unsupported("SymStr.encode(%s)" % enc)

    def startswith(self, p, start=0):
        if isinstance(p, tuple):
            return any(self.startswith(x, start) for x in p)
        return start + len(p) <= len(self) and bool(self[start:start + len(p)] == p)

    def endswith(self, p):
        if isinstance(p, tuple):
            return any(self.endswith(x) for x in p)
        return len(p) <= len(self) and bool(self[len(self) - len(p):] == p)

    # ---- text API subset: every decision about a symbolic character is a solver-checked fork ---------
    _WS = (9, 10, 11, 12, 13, 28, 29, 30, 31, 32, 0x85, 0xA0)
    _LINEBREAKS = (10, 11, 12, 13, 28, 29, 30, 0x85, 0x2028, 0x2029)

    @staticmethod
    def _is_one_of(x, values):
        if isinstance(x, int):
            return x in values
        return bool(_any_eq(x, values))

    def strip(self, chars=None):
        ws = self._WS if chars is None else [ord(ch) for ch in chars]
        items = list(self.items)
        while items and self._is_one_of(items[-1], ws):
            items.pop()
        while items and self._is_one_of(items[0], ws):
            items.pop(0)
        return mkstr(items)

    def lstrip(self, chars=None):
        ws = self._WS if chars is None else [ord(ch) for ch in chars]
        items = list(self.items)
        while items and self._is_one_of(items[0], ws):
            items.pop(0)
        return mkstr(items)

    def rstrip(self, chars=None):
        ws = self._WS if chars is None else [ord(ch) for ch in chars]
        items = list(self.items)
        while items and self._is_one_of(items[-1], ws):
            items.pop()
        return mkstr(items)

    def lower(self):
        out = []
        for it in self.items:
            if isinstance(it, int):
                out.append(ord(chr(it).lower()) if len(chr(it).lower()) == 1 else it)
            else:
                if it.hi > 0xFF:
                    raise Unsupported("SymStr.lower beyond latin-1")
                up = ((it >= 65) & (it <= 90)) | ((it >= 0xC0) & (it <= 0xDE) & (it != 0xD7))
                out.append(ite(up, it + 32, it))
        return mkstr(out)

    def upper(self):
        raise Unsupported("SymStr.upper")

    def find(self, sub, start=0, end=None):
        end = len(self.items) if end is None else min(end, len(self.items))
        n = len(sub)
        for p in range(start, end - n + 1):
            if bool(self[p:p + n] == sub):
                return p
        return -1

    def rfind(self, sub):
        n = len(sub)
        for p in range(len(self.items) - n, -1, -1):
            if bool(self[p:p + n] == sub):
                return p
        return -1

    def __contains__(self, sub):
        return self.find(sub) >= 0

    def count(self, sub):
        n, k, p = len(sub), 0, 0
        while True:
            q = self.find(sub, p)
            if q < 0:
                return k
            k += 1
            p = q + max(n, 1)

    def split(self, sep=None, maxsplit=-1):
        if sep is None:
            # runs of whitespace
            out, cur = [], []
            for it in self.items:
                if self._is_one_of(it, self._WS):
                    if cur:
                        out.append(mkstr(cur))
                        cur = []
                else:
                    cur.append(it)
            if cur:
                out.append(mkstr(cur))
            if maxsplit >= 0 and len(out) > maxsplit + 1:
                raise Unsupported("SymStr.split(None, maxsplit)")
            return out
        out, cur, n = [], 0, 0
        while maxsplit < 0 or n < maxsplit:
            p = self.find(sep, cur)
            if p < 0:
                break
            out.append(self[cur:p])
            cur = p + len(sep)
            n += 1
        out.append(self[cur:])
        return out

    def rsplit(self, sep=None, maxsplit=-1):
        if sep is None or maxsplit != 1:
            raise Unsupported("SymStr.rsplit")
        p = self.rfind(sep)
        if p < 0:
            return [self]
        return [self[:p], self[p + len(sep):]]

    def splitlines(self, keepends=False):
        if keepends:
            raise Unsupported("splitlines(keepends)")
        out, cur = [], []
        items = self.items
        i, n = 0, len(items)
        while i < n:
            it = items[i]
            if self._is_one_of(it, self._LINEBREAKS):
                out.append(mkstr(cur))
                cur = []
                # \r\n counts as one break
                if self._is_one_of(it, (13,)) and i + 1 < n and self._is_one_of(items[i + 1], (10,)):
                    i += 1
            else:
                cur.append(it)
            i += 1
        if cur:
            out.append(mkstr(cur))
        return out

    def isdigit(self):
        return len(self.items) > 0 and all(self._is_one_of(it, tuple(range(48, 58))) if isinstance(it, int) else bool((it >= 48) & (it <= 57)) for it in self.items)

    def __format__(self, spec):
        CTX.opaque_fmt += 1
        return "<symstr>"

    def __str__(self):
        CTX.opaque_fmt += 1
        return "<symstr>"

    def __repr__(self):
        return "<SymStr n=%d>" % len(self.items)


class SymDecimal(SymStr):
    """text that is the zero-padded decimal rendering of a symbolic integer: comparisons go through the integer
    (one remainder constraint) instead of digit-wise division, which bit-blasting handles poorly"""
    __slots__ = ("source", "width")

    def __init__(self, source, width):
        self.source, self.width = source, width
        SymStr.__init__(self, [((source // (10 ** (width - 1 - i))) % 10) + 48 for i in range(width)])

    def _as_number(self, o):
        """integer denoted by a decimal digit string (symbolic or not) of the same width, with its validity condition"""
        items = [ord(ch) for ch in o] if isinstance(o, str) else list(o.items)
        if len(items) != self.width:
            return None, False
        val, ok = 0, True
        for it in items:
            d = (it >= 48) & (it <= 57)
            ok = d if ok is True else (ok & d)
            val = val * 10 + (it - 48)
        return val, ok

    def __eq__(self, o):
        if isinstance(o, SymDecimal) and o.width == self.width:
            return self.source == o.source
        if isinstance(o, (str, SymStr)):
            val, ok = self._as_number(o)
            if ok is False:
                return False
            r = (self.source == val)
            return r if ok is True else (ok & r)
        return False

    def __ne__(self, o):
        r = self.__eq__(o)
        return (not r) if isinstance(r, bool) else ~r

    __hash__ = SymStr.__hash__


def mkstr(items):
    items = [mkint(x) if isinstance(x, SymInt) else x for x in items]
    if all(isinstance(x, int) for x in items):
        return "".join(chr(x) for x in items)
    return SymStr(items)


def utf8_encode(s):
    """exact model of str.encode('utf8'): fork on the 1/2/3/4-octet class of each code point"""
    out = []
    for k, cp in enumerate(s.items):
        if isinstance(cp, int):
            out.extend(chr(cp).encode("utf8"))
            continue
        if bool(cp < 0x80):
            out.append(cp)
        elif bool(cp < 0x800):
            out.append(0xC0 | (cp >> 6))
            out.append(0x80 | (cp & 0x3F))
        elif bool(cp < 0x10000):
            if bool((cp >= 0xD800) & (cp <= 0xDFFF)):
                raise UnicodeEncodeError("utf-8", "?", k, k + 1, "surrogates not allowed")
            out.append(0xE0 | (cp >> 12))
            out.append(0x80 | ((cp >> 6) & 0x3F))
            out.append(0x80 | (cp & 0x3F))
        else:
            out.append(0xF0 | (cp >> 18))
            out.append(0x80 | ((cp >> 12) & 0x3F))
            out.append(0x80 | ((cp >> 6) & 0x3F))
            out.append(0x80 | (cp & 0x3F))
    return mkbytes(out)


class _TruncatedTail(Exception):
    pass


def utf8_decode(b, ignore_truncated_tail=False):
    """exact model of bytes.decode('utf8', 'strict') by forking on the sequence structure (RFC 3629).
    With ignore_truncated_tail (errors='ignore'): a sequence cut off by the end of the data is dropped;
    any other malformation has no model here (Unsupported) - enough for truncated prefixes of valid text."""
    items = b.items
    n = len(items)
    out = []
    i = 0

    def err(k, why="invalid"):
        if ignore_truncated_tail:
            if why == "unexpected end of data":
                raise _TruncatedTail()
            raise Unsupported("utf8 decode(errors='ignore') of data that is not a truncated prefix of valid UTF-8")
        raise UnicodeDecodeError("utf-8", b"?", k, k + 1, why)

    def cont(k):
        if k >= n:
            err(i, "unexpected end of data")
        c = items[k]
        if not bool((c >= 0x80) & (c <= 0xBF)):
            err(i, "invalid continuation byte")
        return c & 0x3F

    while i < n:
        a = items[i]
        if bool(a < 0x80):
            out.append(a)
            i += 1
        elif bool(a < 0xC2):
            err(i, "invalid start byte")
        elif bool(a < 0xE0):
            c1 = cont(i + 1)
            out.append(((a & 0x1F) << 6) | c1)
            i += 2
        elif bool(a < 0xF0):
            if i + 1 >= n:
                err(i, "unexpected end of data")
            b1 = items[i + 1]
            if bool(a == 0xE0):
                ok = (b1 >= 0xA0) & (b1 <= 0xBF)
            elif bool(a == 0xED):
                ok = (b1 >= 0x80) & (b1 <= 0x9F)
            else:
                ok = (b1 >= 0x80) & (b1 <= 0xBF)
            if not bool(ok):
                err(i, "invalid continuation byte")
            c2 = cont(i + 2)
            out.append(((a & 0x0F) << 12) | ((b1 & 0x3F) << 6) | c2)
            i += 3
        elif bool(a < 0xF5):
            if i + 1 >= n:
                err(i, "unexpected end of data")
            b1 = items[i + 1]
            if bool(a == 0xF0):
                ok = (b1 >= 0x90) & (b1 <= 0xBF)
            elif bool(a == 0xF4):
                ok = (b1 >= 0x80) & (b1 <= 0x8F)
            else:
                ok = (b1 >= 0x80) & (b1 <= 0xBF)
            if not bool(ok):
                err(i, "invalid continuation byte")
            c2 = cont(i + 2)
            c3 = cont(i + 3)
            out.append(((a & 0x07) << 18) | ((b1 & 0x3F) << 12) | (c2 << 6) | c3)
            i += 4
        else:
            err(i, "invalid start byte")
    return mkstr(out)


_utf8_decode_strict = utf8_decode


def utf8_decode(b, ignore_truncated_tail=False):  # noqa: F811
    try:
        return _utf8_decode_strict(b, ignore_truncated_tail)
    except _TruncatedTail:
        # drop the incomplete trailing sequence: find its start (last lead octet)
        items = b.items
        k = len(items) - 1
        while k >= 0 and bool((items[k] >= 0x80) & (items[k] <= 0xBF)):
            k -= 1
        return _utf8_decode_strict(SymBytes(items[:k]) if k > 0 else SymBytes([]), ignore_truncated_tail) if k > 0 else ""


class SymArrayB:
    """model of array('B', data): item get/set, len, append, tobytes, iteration"""

    def __init__(self, data=()):
        if isinstance(data, SymBytes):
            self.items = list(data.items)
        else:
            self.items = list(data)

    def __len__(self):
        return len(self.items)

    def __iter__(self):
        return iter(self.items)

    def __getitem__(self, i):
        if isinstance(i, slice):
            return SymArrayB(self.items[i])
        if isinstance(i, SymInt):
            return select_table(self.items, i)
        return self.items[i]

    def _chk(self, v):
        v = mkint(v) if isinstance(v, SymInt) else v
        if isinstance(v, SymInt):
            if not (v.lo >= 0 and v.hi <= 255):
                if not bool((v >= 0) & (v <= 255)):
                    raise OverflowError("unsigned byte integer is out of range")
        elif not (0 <= v <= 255):
            raise OverflowError("unsigned byte integer is out of range")
        return v

    def __setitem__(self, i, v):
        if isinstance(i, SymInt):
            i = i.__index__()
        self.items[i] = self._chk(v)

    def append(self, v):
        self.items.append(self._chk(v))

    def extend(self, vs):
        for v in vs:
            self.append(v)

    def tobytes(self):
        return mkbytes(self.items)

    tostring = tobytes


def select_table(tbl, idx):
    """TABLE[idx] for symbolic idx: run-length-compressed ite over the table's current contents"""
    n = len(tbl)
    if idx.lo < 0 or idx.hi >= n:
        if not bool((idx >= 0) & (idx <= n - 1)):
            if bool(idx < 0) and bool(idx >= -n):
                idx = idx + n
            else:
                raise IndexError("index out of range")
    lo, hi = max(idx.lo, 0), min(idx.hi, n - 1)
    vals = [tbl[k] for k in range(lo, hi + 1)]
    if not all(isinstance(v, (int, SymInt)) and not isinstance(v, bool) for v in vals):
        # non-integer table: case split on the index
        return tbl[idx.__index__()]
    iw = idx.w
    if all(isinstance(v, int) for v in vals):
        runs = []
        for k, v in enumerate(vals):
            if runs and runs[-1][1] == v:
                runs[-1][0] = lo + k
            else:
                runs.append([lo + k, v])
        vlo, vhi = min(vals), max(vals)
        w = bits_for(vlo, vhi)
        e = z3.BitVecVal(runs[-1][1], w)
        for last, v in reversed(runs[:-1]):
            e = z3.If(idx.e <= z3.BitVecVal(last, iw), z3.BitVecVal(v, w), e)
        return mkint(SymInt(e, vlo, vhi))
    vals = [SymInt.lift(v) for v in vals]
    vlo, vhi = min(v.lo for v in vals), max(v.hi for v in vals)
    w = bits_for(vlo, vhi)
    e = vals[-1].ext(w)
    for k in range(hi - 1, lo - 1, -1):
        e = z3.If(idx.e == z3.BitVecVal(k, iw), vals[k - lo].ext(w), e)
    return mkint(SymInt(e, vlo, vhi))


SYM_TYPES = (SymInt, SymBool, SymBytes, SymStr, SymArrayB)


def is_sym(x):
    return isinstance(x, SYM_TYPES)


# ------------------------------------------------------------------------------------------
# exploration context
# ------------------------------------------------------------------------------------------
class Ctx:
    fmt_split_cap = 0        # a SymInt with at most this many candidate values is rendered exactly (case split); wider ones render as an opaque tag
    concretize_cap = 4096

    def __init__(self):
        self.mode = MODE_CONC
        self.active = False
        self.opaque_fmt = 0
        self.reset_stats()

    def reset_stats(self):
        self.stats = dict(paths=0, forks=0, solver_calls=0, solver_s=0.0, obligations=0, discharged=0,
                          aborted=0)

    # -- per path ------------------------------------------------------------------------
    def begin_path(self):
        self.solver = z3.Solver()
        self.solver.set("timeout", self.solver_timeout_ms)
        self.pos = 0
        self.model = None          # a model of the current path condition, if known
        self.vars = {}             # name -> proxy (declared inputs of this path)
        self.var_order = []
        self.counters = {}

    def assume(self, e):
        self.solver.add(e)
        self.model = None

    def _check(self, *a):
        t = time.time()
        r = self.solver.check(*a)
        self.stats["solver_s"] += time.time() - t
        self.stats["solver_calls"] += 1
        if r == z3.unknown:
            raise Unsupported("solver returned unknown (%s)" % self.solver.reason_unknown())
        if time.time() > self.deadline:
            raise Budget("wall-clock budget")
        return r == z3.sat

    def _model_says(self, e):
        if self.model is None:
            return None
        try:
            v = self.model.eval(e, model_completion=True)
        except z3.Z3Exception:
            return None
        if z3.is_true(v):
            return True
        if z3.is_false(v):
            return False
        return None

    def fork(self, e):
        e = z3.simplify(e)
        if z3.is_true(e):
            return True
        if z3.is_false(e):
            return False
        if self.mode != MODE_SYM or not self.active:
            raise Unsupported("symbolic branch outside an exploration")
        if self.pos < len(self.trail):
            ch = self.trail[self.pos][0]
            self.model = None
        else:
            ms = self._model_says(e)
            if ms is True:
                t_ok = True
                f_ok = self._check(z3.Not(e))
            elif ms is False:
                f_ok = True
                t_ok = self._check(e)
                if t_ok:
                    self.model = self.solver.model()
            else:
                t_ok = self._check(e)
                if t_ok:
                    self.model = self.solver.model()
                    f_ok = self._check(z3.Not(e))
                else:
                    f_ok = True
            if t_ok and f_ok:
                ch = True
                self.trail.append([True, True])
                self.stats["forks"] += 1
            elif t_ok:
                ch = True
                self.trail.append([True, False])
            elif f_ok:
                ch = False
                self.trail.append([False, False])
                self.model = None
            else:
                raise PathAbort()
        self.pos += 1
        self.solver.add(e if ch else z3.Not(e))
        return ch

    def concretize(self, si):
        if si.lo == si.hi:
            return si.lo
        if self.mode != MODE_SYM:
            raise Unsupported("concretize outside SYM mode")
        # use the model's value first (keeps the search cheap), then enumerate the rest
        if si.hi - si.lo > self.concretize_cap:
            # wide range: still exact as long as only few values are feasible on this path
            seen = []
            while len(seen) <= 64:
                cand = None
                if self.model is not None:
                    try:
                        cand = self.model.eval(si.e, model_completion=True).as_signed_long()
                    except Exception:
                        cand = None
                if cand is None or cand in seen:
                    excl = z3.And(*[si.e != z3.BitVecVal(v, si.w) for v in seen]) if seen else z3.BoolVal(True)
                    if not self._check(excl):
                        raise PathAbort()
                    self.model = self.solver.model()
                    cand = self.model.eval(si.e, model_completion=True).as_signed_long()
                seen.append(cand)
                if bool(si == cand):
                    return cand
            raise Unsupported("concretize: more than 64 feasible values in a wide range")
        for v in range(si.lo, si.hi + 1):
            if bool(si == v):
                return v
        raise PathAbort()

    def eval_int(self, model, x):
        if isinstance(x, SymInt):
            return model.eval(x.e, model_completion=True).as_signed_long()
        if isinstance(x, SymBool):
            return bool(z3.is_true(model.eval(x.e, model_completion=True)))
        return x

    def eval_value(self, model, x):
        if isinstance(x, (SymInt, SymBool)):
            return self.eval_int(model, x)
        if isinstance(x, SymBytes):
            return bytes(self.eval_int(model, i) for i in x.items)
        if isinstance(x, SymStr):
            return "".join(chr(self.eval_int(model, i)) for i in x.items)
        return x

    # -- exploration driver ---------------------------------------------------------------
    def explore(self, fn, max_paths=200000, wall_s=600.0, solver_timeout_ms=60000):
        """run fn() once per feasible path. fn uses the global Sx handle.  Returns stats."""
        self.reset_stats()
        self.mode = MODE_SYM
        self.active = True
        self.trail = []
        self.deadline = time.time() + wall_s
        self.solver_timeout_ms = solver_timeout_ms
        self.inconclusive = []
        try:
            while True:
                self.begin_path()
                try:
                    fn()
                except PathAbort:
                    self.stats["aborted"] += 1
                except Budget as e:
                    self.inconclusive.append("budget: %s" % e)
                    return self.stats
                except Unsupported as e:
                    import traceback
                    tb = traceback.extract_tb(e.__traceback__)
                    where = " <- ".join("%s:%d" % (f.filename.split("/")[-1], f.lineno) for f in tb[-4:])
                    self.inconclusive.append("unsupported: %s @ %s" % (e, where))
                    if len(self.inconclusive) > 5:
                        return self.stats
                if self.pos != len(self.trail):
                    self.inconclusive.append("nondeterministic replay (pos %d trail %d)" % (self.pos, len(self.trail)))
                    return self.stats
                self.stats["paths"] += 1
                if self.stats["paths"] >= max_paths:
                    self.inconclusive.append("path budget %d" % max_paths)
                    return self.stats
                if time.time() > self.deadline:
                    self.inconclusive.append("wall-clock budget %.0fs" % wall_s)
                    return self.stats
                while self.trail and not (self.trail[-1][0] and self.trail[-1][1]):
                    self.trail.pop()
                if not self.trail:
                    return self.stats
                self.trail[-1] = [False, False]
        finally:
            self.active = False
            self.mode = MODE_CONC


CTX = Ctx()
CTX.solver_timeout_ms = 60000
CTX.deadline = float("inf")
