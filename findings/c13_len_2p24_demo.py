"""C13 genuine defect (fixed by 28728976): RawSocket send() of a message of exactly 2**24 octets wrote the prefix 01 00 00 00
(= header of an empty PING frame) followed by 16 MiB of unframed octets.  Run: /venv/bin/python findings/c13_len_2p24_demo.py [tree]"""
import sys
sys.path.insert(0, (sys.argv[1] if len(sys.argv) > 1 else "/repo") + "/src")
import txaio
txaio.use_asyncio()
from autobahn.asyncio.rawsocket import WampRawSocketClientProtocol
from autobahn.wamp.serializer import JsonSerializer
from autobahn.exception import PayloadExceededError


class T:
    out = []
    def write(self, d): self.out.append(bytes(d[:8]))
    def get_extra_info(self, *a, **k): return None
    def close(self): pass
    def abort(self): pass
    def is_closing(self): return False


class S:
    def onOpen(self, t): pass
    def onClose(self, *a): pass


class Ser:
    RAWSOCKET_SERIALIZER_ID = 1
    SERIALIZER_ID = "json"
    def serialize(self, msg): return bytes(2 ** 24), False


p = WampRawSocketClientProtocol()
p.factory = type("F", (), {"_serializer": JsonSerializer(), "_factory": staticmethod(lambda: S()), "max_size": None})()
p.serializer = p.factory._serializer
t = T()
try:
    p.connection_made(t)
    p.data_received(bytes([0x7F, 0xF1, 0, 0]))      # server announces 2**24
except Exception as e:
    print("setup differs on this tree:", repr(e))
p._serializer = Ser()
del t.out[:]
try:
    p.send(object())
    print("DEFECT: frame header written:", t.out[0].hex(), "(frame type octet 01 = PING, length 0)")
except PayloadExceededError as e:
    print("refused:", e)
