"""C17  Silent peers are dropped on time, responsive peers never."""
from . import wslib

PID = "C17"
FUNCTIONS = [
    "autobahn.websocket.protocol: WebSocketProtocol._connectionMade (open-handshake timer), onOpenHandshakeTimeout",
    "autobahn.websocket.protocol: sendCloseFrame (close-handshake timer), onCloseHandshakeTimeout, onCloseFrame (server-drop timer, cancellation), onServerConnectionDropTimeout",
    "autobahn.websocket.protocol: succeedHandshake / client processHandshake (timer cancel, first auto-ping), _sendAutoPing, onAutoPingTimeout, _cancelAutoPingTimeoutCall, processControlFrame pong branch, onFrameEnd (restart on any traffic)",
    "autobahn.websocket.protocol: dropConnection, _connectionLost (timer cancellation)",
    "autobahn.twisted.websocket: adapter connectionMade / dataReceived / connectionLost / _closeConnection",
]
STUBS = ["reactor / txaio.call_later / txaio batched timer -> twisted Clock (virtual time, stepped on a 0.25 s grid)", "time.time_ns -> virtual clock", "os.urandom -> fixed octets",
         "frame mask keys fixed", "transport -> recording object", "loggers -> empty bodies"]
ASSUMPTIONS = [
    "time line discretised to 0.25 s; the txaio batched timer truncates deadlines to whole seconds and 0.2 s buckets, so timers may fire up to one second early (the property's one-second granularity): only the upper bound is asserted for silent peers; bucket rounding is allowed as slack: 'no later than the deadline' is asserted as deadline + 0.25 s, 'never dropped' for reactions >= 1 s before the deadline",
    "timeouts/intervals from a grid of small integers",
]
BOUNDS = {
    "quick": "open-handshake timeout T in {1,2}: peer handshake at every grid instant in [0, T+1] or never, both roles; close-handshake timeout in {1,2} x server-drop timeout in {1,2}: peer reply and TCP drop at every grid instant, both roles; peer-initiated close x echoCloseCodeReason on/off x (close, drop) timeouts {(1,3),(2,2)}: server TCP drop at every grid instant or never; auto-ping interval in {1,2} x timeout in {1,2} x restart-on-traffic on/off: 3 rounds with 6 peer reactions per round placed on the grid; every leftover timer fired after close; non-final fragments as traffic; client behind an HTTP proxy (CONNECT answered, target silent); ping timer racing an in-time closing handshake (race/ units); asyncio adapter on a virtual-time loop for all four timer kinds (aio/ units)",
    "thorough": "T in {1,2,3,5}, 4 auto-ping rounds, intervals/timeouts in {1,2,3}",
}
EXPECT_COVERS = ["peerclose:server", "peerclose:client-intime", "peerclose:client-late", "open:intime", "open:late", "close:reply-intime", "close:reply-late", "drop:intime", "drop:late", "ping:pong", "ping:silent", "ping:data", "ping:latepong", "ping:fragment", "open:proxy", "race:ping-vs-close"]
BUDGET = {"quick": dict(wall_s=300, max_paths=30000, diff_samples=4), "thorough": dict(wall_s=2400, max_paths=400000)}
GRID = 0.25
SLACK = 0.25


def _lost(ep, trace, clean=True):
    trace.append((ep.who, "LOST"))
    wslib.lost(ep, getattr(ep, "fw", "twisted"))


def _step(clock, ep, until, on_tick=None):
    """advance virtual time on the grid up to `until`; returns the time at which our side dropped the transport (or None)"""
    dropped = None
    while clock.seconds() + 1e-9 < until:
        clock.advance(min(GRID, until - clock.seconds()))
        if on_tick:
            on_tick(clock.seconds())
        if dropped is None and ep.t.closed is not None:
            dropped = clock.seconds()
    return dropped


def _check_unclean(sx, ep, trace, needle, info):
    oc = trace.of(ep.who, "close")
    sx.check(len(oc) == 1, "onClose-once", info=info)
    if oc:
        sx.check(oc[0][2] is False and oc[0][3] == 1006, "reported-unclean-1006", info=info)
        sx.check(isinstance(oc[0][4], str) and needle in oc[0][4], "reported-reason-names-the-timeout", info=dict(info, reason=oc[0][4]))


def _after_close_inert(sx, clock, ep, trace, info):
    n = len(trace)
    w = len(ep.t.written)
    clock.advance(30)
    wslib.drain(clock)
    sx.check(len(trace) == n and len(ep.t.written) == w, "timers-have-no-effect-after-close", info=info)


def open_timeout(sx, server, T, fw="twisted", proxy=False):
    import base64
    import hashlib
    from symx.env import Trace
    clock = wslib.setup_fw(fw)
    trace = Trace()
    wslib.patch_env(sx, clock, fixed_rnd=True)
    ep, f = wslib.make_endpoint_fw(fw, sx, "S" if server else "C", server, trace, clock, dict(openHandshakeTimeout=T),
                                   factory_kwargs=dict(proxy=dict(host="proxy.local", port=3128)) if proxy else None)
    ep.fw = fw
    ep.p.makeConnection(ep.t)
    if proxy:
        # the proxy answers the CONNECT at once; the opening handshake with the target is what the timeout is about
        ep.p.dataReceived(b"HTTP/1.1 200 Connection established\r\n\r\n")
        sx.cover("open:proxy")
    ngrid = int((T + 1) / GRID) + 1
    k = sx.choice("when", ngrid + 1)           # grid instant of the peer's handshake, or never (== ngrid)
    tau = None if k == ngrid else k * GRID
    key = base64.b64encode(wslib._FIXED_KEY)
    if server:
        hs = (b"GET / HTTP/1.1\r\nHost: localhost:9000\r\nUpgrade: websocket\r\nConnection: Upgrade\r\n"
              b"Sec-WebSocket-Key: " + key + b"\r\nSec-WebSocket-Version: 13\r\n\r\n")
    else:
        acc = base64.b64encode(hashlib.sha1(key + b"258EAFA5-E914-47DA-95CA-C5AB0DC85B11").digest())
        hs = (b"HTTP/1.1 101 Switching Protocols\r\nUpgrade: websocket\r\nConnection: Upgrade\r\n"
              b"Sec-WebSocket-Accept: " + acc + b"\r\n\r\n")
    info = dict(server=server, T=T, tau=tau, fw=fw, proxy=proxy)
    dropped = None
    if tau is not None:
        dropped = _step(clock, ep, tau)
        if dropped is None:
            ep.p.dataReceived(hs[:10])           # handshake octets may trickle in: only completion counts
            ep.p.dataReceived(hs[10:])
    d2 = _step(clock, ep, T + 2)
    dropped = dropped if dropped is not None else d2
    if tau is not None and tau <= T - 1:
        sx.check(dropped is None and ep.p.state == ep.p.STATE_OPEN, "responsive-peer-not-dropped", info=info)
        sx.check(len(trace.of(ep.who, "open")) == 1, "handshake-completed", info=info)
        sx.cover("open:intime")
    elif tau is None or tau > T + SLACK:
        sx.check(dropped is not None and dropped <= T + SLACK + 1e-9, "silent-peer-dropped-by-deadline", info=dict(info, dropped=dropped))
        if dropped is not None:
            _lost(ep, trace)
            _check_unclean(sx, ep, trace, "opening handshake timeout", info)
            sx.check(len(trace.of(ep.who, "open")) == 0, "never-opened", info=info)
            _after_close_inert(sx, clock, ep, trace, info)
        sx.cover("open:late")
    return [tau, dropped]


def close_timeouts(sx, server, Tc, Td, fw="twisted"):
    """local close at t0; peer's close reply at a grid instant or never; then (client) the server's TCP drop at a grid instant or never"""
    opts = dict(closeHandshakeTimeout=Tc)
    if not server:
        opts["serverConnectionDropTimeout"] = Td
    clock, trace, ep, rnd = wslib.open_one(sx, server, opts, fixed_rnd=True, fw=fw)
    ep.fw = fw
    p = ep.p
    _step(clock, ep, 0.5)
    t0 = clock.seconds()
    p.sendClose(1000, "bye")
    ng = int((Tc + 1) / GRID) + 1
    k = sx.choice("reply", ng + 1)
    tau = None if k == ng else k * GRID
    info = dict(server=server, Tc=Tc, Td=Td, reply_after=tau, fw=fw)
    mask = b"\x01\x02\x03\x04" if server else None
    dropped = None
    if tau is not None:
        dropped = _step(clock, ep, t0 + tau)
        if dropped is None:
            p.dataReceived(wslib.build_frame(8, b"\x03\xe8", mask=mask))
            if ep.t.closed is not None:
                dropped = clock.seconds()
    replied_in_time = tau is not None and tau <= Tc - 1
    replied_late = tau is None or tau > Tc + SLACK
    if replied_late:
        d2 = _step(clock, ep, t0 + Tc + 1)
        dropped = dropped if dropped is not None else d2
        sx.check(dropped is not None and dropped <= t0 + Tc + SLACK + 1e-9, "no-close-reply:dropped-by-deadline", info=dict(info, dropped=dropped))
        if dropped is not None:
            _lost(ep, trace)
            _check_unclean(sx, ep, trace, "closing handshake timeout (peer did not finish", info)
            _after_close_inert(sx, clock, ep, trace, info)
        sx.cover("close:reply-late")
        return [tau, dropped]
    if not replied_in_time:
        return [tau, "grey-zone"]
    sx.cover("close:reply-intime")
    if server:
        # a server drops TCP itself right after the peer's reply: clean close
        sx.check(ep.t.closed is not None, "server-drops-after-reply", info=info)
        _lost(ep, trace)
        oc = trace.of(ep.who, "close")
        sx.check(len(oc) == 1 and oc[0][2] is True and oc[0][3] == 1000, "clean-close-reported", info=info)
        _after_close_inert(sx, clock, ep, trace, info)
        return [tau, "server-clean"]
    sx.check(dropped is None, "client-not-dropped-by-close-timer-after-timely-reply", info=info)
    t1 = clock.seconds()
    ng2 = int((Td + 1) / GRID) + 1
    k2 = sx.choice("tcpdrop", ng2 + 1)
    tau2 = None if k2 == ng2 else k2 * GRID
    info = dict(info, tcp_drop_after=tau2)
    d = None
    if tau2 is not None:
        d = _step(clock, ep, t1 + tau2)
        if d is None:
            _lost(ep, trace)          # the server dropped TCP
            if tau2 <= Td - 1:
                oc = trace.of(ep.who, "close")
                sx.check(len(oc) == 1 and oc[0][2] is True and oc[0][3] == 1000, "timely-server-drop=>clean-close", info=info)
                sx.cover("drop:intime")
                _after_close_inert(sx, clock, ep, trace, info)
            return [tau, tau2, "peer-dropped"]
    if tau2 is None or tau2 > Td + SLACK:
        d2 = _step(clock, ep, t1 + Td + 1)
        d = d if d is not None else d2
        sx.check(d is not None and d <= t1 + Td + SLACK + 1e-9, "server-never-drops:client-drops-by-deadline", info=dict(info, dropped=d))
        if d is not None:
            _lost(ep, trace)
            _check_unclean(sx, ep, trace, "server did not drop TCP connection in time", info)
            _after_close_inert(sx, clock, ep, trace, info)
        sx.cover("drop:late")
    return [tau, tau2, d]


REACTIONS = ["pong", "silent", "data", "data+latepong", "wrongpong", "data+pong-intime", "fragment"]


def autoping(sx, server, I, T, restart, rounds, fw="twisted"):
    opts = dict(autoPingInterval=I, autoPingTimeout=T, autoPingSize=12, autoPingRestartOnAnyTraffic=restart)
    clock, trace, ep, rnd = wslib.open_one(sx, server, opts, fixed_rnd=True, fw=fw)
    ep.fw = fw
    p, t = ep.p, ep.t
    mask = b"\x01\x02\x03\x04" if server else None
    pings = []               # (time, payload) of ping frames we wrote
    seen = [0]

    def scan(now):
        chunks = t.written[seen[0]:]
        seen[0] = len(t.written)
        if chunks:
            frames, rest = wslib.parse_frames(sx, wslib.concat(chunks))
            for f in frames:
                if f.opcode == 9:
                    pings.append((now, f.payload))

    info = dict(server=server, I=I, T=T, restart=restart, fw=fw)
    inside = [False]          # a fragmented data message of the peer is in progress
    log = []
    alive_until = None
    for r in range(rounds):
        # wait for the next ping
        n0 = len(pings)
        t_wait0 = clock.seconds()
        d = None
        while len(pings) == n0 and clock.seconds() < t_wait0 + I + T + 1 and d is None:
            d = _step(clock, ep, clock.seconds() + GRID, scan)
        if d is not None or len(pings) == n0:
            sx.check(False, "ping-sent-every-interval-while-open", info=dict(info, round=r, log=log, pings=[x[0] for x in pings]))
            return [log]
        tp, pl = pings[-1]
        if len(pings) >= 2:
            sx.check(tp - pings[-2][0] >= I - 1e-9, "pings-never-closer-than-the-interval", info=dict(info, times=[x[0] for x in pings]))
        react = REACTIONS[sx.choice("react%d" % r, len(REACTIONS))]
        log.append(react)
        early = max(0.0, T - 1)             # a reaction with >= 1 s to spare
        if react == "pong":
            _step(clock, ep, tp + early, scan)
            p.dataReceived(wslib.build_frame(10, pl, mask=mask))
            sx.check(t.closed is None, "responsive-peer-not-dropped", info=dict(info, log=log))
            # the ping timer of the answered ping must be gone: nothing drops us during the next interval
            d = _step(clock, ep, tp + early + I - GRID, scan)
            sx.check(d is None, "answered-ping-does-not-time-out", info=dict(info, log=log))
            sx.cover("ping:pong")
        elif react in ("silent", "wrongpong"):
            if react == "wrongpong":
                p.dataReceived(wslib.build_frame(10, b"not-the-ping", mask=mask))
            d = _step(clock, ep, tp + T + 1, scan)
            sx.check(d is not None and d <= tp + T + SLACK + 1e-9, "silent-peer-dropped-by-ping-deadline", info=dict(info, dropped=d, ping=tp, log=log))
            if d is not None:
                _lost(ep, trace)
                _check_unclean(sx, ep, trace, "ping timeout", info)
                _after_close_inert(sx, clock, ep, trace, info)
            sx.cover("ping:silent")
            return [log, [x[0] for x in pings]]
        else:
            # a data frame arrives with >= 1 s to spare
            _step(clock, ep, tp + early, scan)
            td = clock.seconds()
            if react == "fragment":
                # traffic = any frame: a non-final fragment of a long message still in flight (later rounds continue the same message)
                p.dataReceived(wslib.build_frame(0 if inside[0] else 2, b"d", fin=False, mask=mask))
                inside[0] = True
                sx.cover("ping:fragment")
            else:
                p.dataReceived(wslib.build_frame(0 if inside[0] else 2, b"d", mask=mask))
                inside[0] = False
            sx.cover("ping:data")
            if react == "data+pong-intime":
                p.dataReceived(wslib.build_frame(10, pl, mask=mask))
            if restart or react == "data+pong-intime":
                if react == "data+latepong":
                    # the pong of the superseded ping shows up a little later
                    _step(clock, ep, td + GRID, scan)
                    p.dataReceived(wslib.build_frame(10, pl, mask=mask))
                    sx.cover("ping:latepong")
                d = _step(clock, ep, td + I - GRID, scan)
                sx.check(d is None and t.closed is None, "peer-with-traffic-not-dropped", info=dict(info, log=log))
            else:
                # data does not count as a pong when restart-on-traffic is off
                d = _step(clock, ep, tp + T + 1, scan)
                sx.check(d is not None and d <= tp + T + SLACK + 1e-9, "no-pong:dropped-by-ping-deadline", info=dict(info, dropped=d, log=log))
                if d is not None:
                    _lost(ep, trace)
                    _check_unclean(sx, ep, trace, "ping timeout", info)
                return [log, [x[0] for x in pings]]
    # still open after all rounds of timely reactions: one more ping must come, and exactly one chain of pings exists
    n0 = len(pings)
    t_w = clock.seconds()
    d = None
    while len(pings) == n0 and d is None and clock.seconds() < t_w + I + SLACK:
        d = _step(clock, ep, clock.seconds() + GRID, scan)
    sx.check(d is None, "responsive-peer-never-dropped", info=dict(info, log=log))
    sx.check(len(pings) >= n0 + 1, "pings-keep-coming", info=dict(info, log=log, times=[x[0] for x in pings]))
    times = [x[0] for x in pings]
    sx.check(all(b - a >= I - 1e-9 for a, b in zip(times, times[1:])), "pings-never-closer-than-the-interval", info=dict(info, times=times, log=log))
    # close locally; afterwards nothing fires
    p.sendClose(1000)
    _step(clock, ep, clock.seconds() + 5, scan)
    if t.closed is not None:
        _lost(ep, trace)
    _after_close_inert(sx, clock, ep, trace, info)
    return [log, times]


def peer_close(sx, server, echo, Tc, Td, fw="twisted"):
    """the PEER starts the closing handshake at t0: a server answers and drops TCP at once; a client answers and then waits for the
    server's TCP drop - not dropped while the server is within serverConnectionDropTimeout, dropped by the deadline when it never drops"""
    opts = dict(closeHandshakeTimeout=Tc, echoCloseCodeReason=echo)
    if not server:
        opts["serverConnectionDropTimeout"] = Td
    clock, trace, ep, rnd = wslib.open_one(sx, server, opts, fixed_rnd=True, fw=fw)
    ep.fw = fw
    p = ep.p
    _step(clock, ep, 0.5)
    t0 = clock.seconds()
    mask = b"\x01\x02\x03\x04" if server else None
    info = dict(server=server, echo=echo, Tc=Tc, Td=Td, fw=fw)
    p.dataReceived(wslib.build_frame(8, b"\x03\xe8bye", mask=mask))
    frames, rest = wslib.parse_frames(sx, wslib.concat(ep.t.take()))
    sx.check(len([f for f in frames if f.opcode == 8]) == 1, "peer-close-answered-with-one-close-frame", info=info)
    if server:
        sx.check(ep.t.closed is not None, "server-drops-after-answering-the-peers-close", info=info)
        _lost(ep, trace)
        oc = trace.of(ep.who, "close")
        sx.check(len(oc) == 1 and oc[0][2] is True and oc[0][3] == 1000, "clean-close-reported", info=info)
        _after_close_inert(sx, clock, ep, trace, info)
        sx.cover("peerclose:server")
        return ["server"]
    sx.check(ep.t.closed is None, "client-waits-for-the-servers-tcp-drop", info=info)
    ng = int((Td + 1) / GRID) + 1
    k = sx.choice("tcpdrop", ng + 1)
    tau = None if k == ng else k * GRID
    info = dict(info, tcp_drop_after=tau)
    if tau is not None:
        d = _step(clock, ep, t0 + tau)
        if tau <= Td - 1:
            sx.check(d is None, "client-does-not-drop-while-the-server-is-within-its-drop-timeout", info=dict(info, dropped=d))
        if d is None:
            _lost(ep, trace)
            if tau <= Td - 1:
                oc = trace.of(ep.who, "close")
                sx.check(len(oc) == 1 and oc[0][2] is True and oc[0][3] == 1000, "timely-server-drop=>clean-close", info=dict(info, oc=repr(oc)[:120]))
                _after_close_inert(sx, clock, ep, trace, info)
            sx.cover("peerclose:client-intime")
            return [tau, "peer-dropped"]
        return [tau, "grey-zone"]
    d = _step(clock, ep, t0 + Td + 1)
    sx.check(d is not None and d <= t0 + Td + SLACK + 1e-9, "server-never-drops:client-drops-by-deadline", info=dict(info, dropped=d))
    if d is not None:
        _lost(ep, trace)
        _after_close_inert(sx, clock, ep, trace, info)
    sx.cover("peerclose:client-late")
    return [tau, d]


def ping_vs_close(sx, server, I, T, Tc, fw="twisted"):
    """two timers racing: automatic pings are configured and the application closes; the peer answers the close frame in time (>= 1 s before
    closeHandshakeTimeout).  No ping can be answered any more once closing has begun (none is sent in that state), so the ping timer
    must not drop this responsive peer - and must not be what the close is blamed on"""
    opts = dict(autoPingInterval=I, autoPingTimeout=T, autoPingSize=12, closeHandshakeTimeout=Tc)
    if not server:
        opts["serverConnectionDropTimeout"] = 1
    clock, trace, ep, rnd = wslib.open_one(sx, server, opts, fixed_rnd=True, fw=fw)
    ep.fw = fw
    p = ep.p
    mask = b"\x01\x02\x03\x04" if server else None
    k0 = sx.choice("closeAt", 4)                       # local close somewhere inside the first ping interval
    _step(clock, ep, k0 * GRID)
    t0 = clock.seconds()
    p.sendClose(1000, "bye")
    ng = int((Tc - 1) / GRID) + 1
    k = sx.choice("reply", ng)                          # the peer's close reply at a grid instant with >= 1 s to spare
    tau = k * GRID
    info = dict(server=server, I=I, T=T, Tc=Tc, close_at=t0, reply_after=tau, fw=fw)
    dropped = _step(clock, ep, t0 + tau)
    sx.check(dropped is None, "responsive-peer-not-dropped-by-the-ping-timer-while-closing", info=dict(info, dropped=dropped))
    if dropped is None:
        p.dataReceived(wslib.build_frame(8, b"\x03\xe8", mask=mask))
        if server:
            sx.check(ep.t.closed is not None, "server-drops-after-reply", info=info)
        else:
            _step(clock, ep, t0 + tau + GRID)
            sx.check(ep.t.closed is None, "client-waits-for-the-servers-tcp-drop", info=info)
    _lost(ep, trace)
    oc = trace.of(ep.who, "close")
    sx.check(len(oc) == 1, "onClose-once", info=info)
    if oc and dropped is None:
        sx.check(oc[0][2] is True and oc[0][3] == 1000, "timely-close-reply=>clean-close", info=dict(info, oc=repr(oc[0])[:160]))
    _after_close_inert(sx, clock, ep, trace, info)
    sx.cover("race:ping-vs-close")
    return [k0, tau, dropped]


def units(tier):
    U = []
    q = tier == "quick"
    Ts = (1, 2) if q else (1, 2, 3, 5)
    for echo in (False, True):
        U.append(("peerclose/S/%s" % ("echo" if echo else "-"), "peer_close", dict(server=True, echo=echo, Tc=1, Td=1)))
        for Tc, Td in (((1, 3), (2, 2)) if q else ((1, 2), (1, 3), (2, 2), (3, 1), (1, 5))):
            U.append(("peerclose/C/%s/Tc%d/Td%d" % ("echo" if echo else "-", Tc, Td), "peer_close", dict(server=False, echo=echo, Tc=Tc, Td=Td)))
    for server in (True, False):
        for T in Ts:
            U.append(("open/%s/T%d" % ("S" if server else "C", T), "open_timeout", dict(server=server, T=T)))
            if not server:
                U.append(("open/C-proxy/T%d" % T, "open_timeout", dict(server=False, T=T, proxy=True)))
        for Tc in ((1, 2) if q else (1, 2, 3)):
            for Td in ((1, 2) if q else (1, 2, 3)):
                if server and Td != 1:
                    continue
                U.append(("close/%s/Tc%d/Td%d" % ("S" if server else "C", Tc, Td), "close_timeouts", dict(server=server, Tc=Tc, Td=Td)))
        for I in ((1, 2) if q else (1, 2, 3)):
            for T in ((1, 2) if q else (1, 2, 3)):
                for restart in (True, False):
                    U.append(("ping/%s/I%d/T%d/%s" % ("S" if server else "C", I, T, "restart" if restart else "norestart"), "autoping",
                              dict(server=server, I=I, T=T, restart=restart, rounds=3 if q else 4), dict(weight=4)))
    for server in (True, False):
        for I, T, Tc in (((1, 1, 4), (2, 1, 5)) if q else ((1, 1, 4), (2, 1, 5), (1, 2, 5), (1, 1, 3))):
            U.append(("race/%s/I%d/T%d/Tc%d" % ("S" if server else "C", I, T, Tc), "ping_vs_close", dict(server=server, I=I, T=T, Tc=Tc)))
    # the asyncio adapter on a virtual-time event loop (own interpreter per unit): same harnesses, same oracles
    AIO = dict(framework="asyncio")
    for server in (True, False):
        for T in ((1,) if q else (1, 2, 3)):
            U.append(("aio/open/%s/T%d" % ("S" if server else "C", T), "open_timeout", dict(server=server, T=T, fw="asyncio"), dict(AIO)))
        for Tc, Td in (((1, 1), (2, 2)) if q else ((1, 1), (2, 2), (1, 2), (2, 1), (3, 1))):
            if server and Td != Tc and Td != 1:
                continue
            U.append(("aio/close/%s/Tc%d/Td%d" % ("S" if server else "C", Tc, Td), "close_timeouts", dict(server=server, Tc=Tc, Td=Td, fw="asyncio"), dict(AIO)))
        for I, T in (((1, 1), (2, 1)) if q else ((1, 1), (2, 1), (1, 2), (2, 2), (3, 2))):
            for restart in (True, False):
                U.append(("aio/ping/%s/I%d/T%d/%s" % ("S" if server else "C", I, T, "restart" if restart else "norestart"), "autoping",
                          dict(server=server, I=I, T=T, restart=restart, rounds=2 if q else 3, fw="asyncio"), dict(AIO, weight=4)))
        for echo in (False, True):
            U.append(("aio/peerclose/%s/%s" % ("S" if server else "C", "echo" if echo else "-"), "peer_close", dict(server=server, echo=echo, Tc=1, Td=2, fw="asyncio"), dict(AIO)))
    return U
