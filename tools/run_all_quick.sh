#!/bin/bash
# tools/run_all_quick.sh [tier] : every check's command on /repo, one after the other; exit code and wall time per check
T=${1:-quick}
cd /verif
for i in $(seq -w 1 20); do
  s=$(date +%s); ./check C$i --tier $T > /tmp/runall_C$i.log 2>&1; rc=$?; e=$(date +%s)
  echo "C$i exit=$rc wall=$((e-s))s $(grep -c '^KNOWN-FINDING' /tmp/runall_C$i.log) known  | $(tail -1 /tmp/runall_C$i.log | cut -c1-160)"
done
