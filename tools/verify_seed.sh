#!/bin/bash
# tools/verify_seed.sh <ID> <m1|m2> : confirm a sub-agent's change in its scratch worktree and file it under seeded/
ID=$1; M=$2; WT=/tmp/wt/$ID; OUT=/tmp/wt/out/$ID; DST=/verif/seeded/$ID-$M
git -C $WT checkout -q -- . ; git -C $WT status --short | grep -v '\.so$' | head -2
git -C $WT apply $OUT/$M.diff || { echo "$ID $M APPLY-FAIL"; exit 1; }
B=$(python3 /verif/tools/baseline.py $WT | head -1)
PYTHONPATH=$WT/src timeout 120 /venv/bin/python $OUT/${M}_demo.py >/tmp/wt/out/$ID/${M}_changed.log 2>&1; RC1=$?
git -C $WT checkout -q -- .
PYTHONPATH=/repo/src timeout 120 /venv/bin/python $OUT/${M}_demo.py >/tmp/wt/out/$ID/${M}_clean.log 2>&1; RC0=$?
echo "$ID $M | $B | demo changed rc=$RC1 clean rc=$RC0"
if [[ "$B" == *"missing=0"* && $RC1 -ne 0 && $RC0 -eq 0 ]]; then
  mkdir -p $DST; cp $OUT/$M.diff $DST/patch.diff; cp $OUT/${M}_demo.py $DST/demo.py
  python3 - "$ID" "$M" "$B" "$RC1" "$RC0" <<'PY'
import json,sys
ID,M,B,RC1,RC0=sys.argv[1:]
src=json.load(open(f"/tmp/wt/out/{ID}/{M}_meta.json"))
meta=dict(property=ID, summary=src.get("summary"), needs_to_manifest=src.get("needs_to_manifest"), files_changed=src.get("files_changed"),
  origin="independent sub-agent given only the property text and its own scratch worktree",
  confirmed_by_me=dict(baseline=B, demo_on_changed_tree_exit=int(RC1), demo_on_clean_repo_exit=int(RC0),
    commands=[f"git -C /tmp/wt/{ID} apply patch.diff", f"python3 tools/baseline.py /tmp/wt/{ID}", f"PYTHONPATH=/tmp/wt/{ID}/src /venv/bin/python demo.py  (must fail)", "PYTHONPATH=/repo/src /venv/bin/python demo.py  (must pass)"]),
  detected_by=None)
json.dump(meta,open(f"/verif/seeded/{ID}-{M}/meta.json","w"),indent=1)
PY
  echo "$ID $M CONFIRMED"
else
  echo "$ID $M NOT-CONFIRMED"
fi
