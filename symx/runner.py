"""Work-unit runner: explores every unit of a property in parallel, replays counterexamples on the
plain import, runs the concrete differential self-test, writes evidence, sets the exit code.

exit 0 = every obligation discharged (known findings printed);  exit 1 = reproduced, unlisted
violation;  exit 3 = inconclusive / harness error (never reported as success)."""
import argparse
import importlib
import json
import multiprocessing
import os
import subprocess
import sys
import time
import traceback

VERIF = os.path.dirname(os.path.dirname(os.path.abspath(__file__)))
EVID_DIR = os.path.join(VERIF, "evidence")
REPLAY_DIR = os.path.join(VERIF, "replays")
KNOWN_FILE = os.path.join(VERIF, "known_findings.json")
PY = sys.executable


def load_known(pid):
    try:
        kf = json.load(open(KNOWN_FILE))
    except FileNotFoundError:
        return {}
    return {f["id"]: f for f in kf.get("findings", []) if f.get("property") == pid and f.get("status", "known") == "known"}


def _jsonable(x):
    if isinstance(x, bytes):
        return {"__bytes__": x.hex()}
    if isinstance(x, dict):
        return {str(k): _jsonable(v) for k, v in x.items()}
    if isinstance(x, (list, tuple)):
        return [_jsonable(v) for v in x]
    if isinstance(x, (int, float, str, bool)) or x is None:
        return x
    return repr(x)


def run_unit(args):
    """executed in a forked child: explore one unit symbolically"""
    pid, modname, uname, fname, params, budget, known_ids = args
    t0 = time.time()
    res = dict(unit=uname, func=fname, params=params, ok=False)
    fw = budget.get("framework", "twisted")
    if fw != os.environ.get("VERIF_FRAMEWORK", "twisted"):
        # a unit for the other networking framework: txaio can be bound only once per process -> fresh interpreter
        env = dict(os.environ)
        env["VERIF_FRAMEWORK"] = fw
        env["PYTHONPATH"] = VERIF + os.pathsep + env.get("PYTHONPATH", "")
        try:
            p = subprocess.run([PY, "-m", "symx.runner", "--exec-unit"], input=json.dumps(list(args)).encode(), capture_output=True,
                               cwd=VERIF, env=env, timeout=budget.get("wall_s", 600) + 120)
            for line in p.stdout.decode(errors="replace").splitlines():
                if line.startswith("UNIT-RESULT "):
                    out = json.loads(line[len("UNIT-RESULT "):])
                    out["framework"] = fw
                    return out
            res["error"] = "fresh-interpreter unit gave no result: rc=%s %s" % (p.returncode, p.stderr.decode(errors="replace")[-1500:])
        except Exception as e:  # noqa
            res["error"] = "fresh-interpreter unit failed: %r" % (e,)
        res["wall_s"] = time.time() - t0
        return res
    try:
        from symx import instr
        instr.install()
        from symx.core import CTX
        from symx.api import sx, StopUnit
        mod = importlib.import_module(modname)
        fn = getattr(mod, fname)
        sx.reset_unit()
        sx.known = {k: True for k in known_ids}
        summaries = []

        def path():
            r = fn(sx, **params)
            return r

        try:
            CTX.explore(path, max_paths=budget.get("max_paths", 200000), wall_s=budget.get("wall_s", 600),
                        solver_timeout_ms=budget.get("solver_timeout_ms", 120000))
        except StopUnit:
            pass
        res.update(stats=CTX.stats, violations=sx.violations, known_hits=sx.known_hits, covers=sx.covers,
                   reach=sx.check_reach, samples=sx.samples, inconclusive=list(CTX.inconclusive),
                   opaque_fmt=CTX.opaque_fmt, sources=dict(instr.SOURCES_READ))
        # concrete runs of the instrumented code on the sampled witnesses (differential, part 1)
        conc = {}
        for label, w in list(sx.samples.items())[: budget.get("diff_samples", 6)]:
            try:
                sx.begin_conc(w)
                out = fn(sx, **params)
                conc[label] = dict(inputs=w, summary=_jsonable(out), covers=list(sx.conc_covers),
                                   failures=list(sx.conc_failures))
            except BaseException as e:  # noqa
                conc[label] = dict(inputs=w, error="%s: %s" % (type(e).__name__, e))
        res["conc_instr"] = conc
        res["ok"] = True
    except BaseException as e:  # noqa
        res["error"] = "%s: %s\n%s" % (type(e).__name__, e, traceback.format_exc()[-1500:])
    res["wall_s"] = time.time() - t0
    return json.loads(json.dumps(_jsonable(res)))


def plain_run(modname, fname, params, inputs, timeout=120, framework="twisted"):
    """run one harness concretely on the PLAIN (uninstrumented) import in a fresh interpreter"""
    job = json.dumps(dict(mod=modname, func=fname, params=params, inputs=inputs))
    env = dict(os.environ)
    env["VERIF_FRAMEWORK"] = framework
    env["PYTHONPATH"] = VERIF + os.pathsep + env.get("PYTHONPATH", "")
    p = subprocess.run([PY, "-m", "symx.replay", "--job", "-"], input=job.encode(), capture_output=True,
                       cwd=VERIF, env=env, timeout=timeout)
    for line in p.stdout.decode(errors="replace").splitlines():
        if line.startswith("REPLAY-RESULT "):
            return json.loads(line[len("REPLAY-RESULT "):])
    return dict(error="no result (rc=%s): %s" % (p.returncode, p.stderr.decode(errors="replace")[-800:]))


def plain_batch(jobs, timeout=600):
    if jobs and any(j.get("framework", "twisted") != jobs[0].get("framework", "twisted") for j in jobs):
        out = [None] * len(jobs)
        for fw in sorted({j.get("framework", "twisted") for j in jobs}):
            idx = [i for i, j in enumerate(jobs) if j.get("framework", "twisted") == fw]
            for i, o in zip(idx, plain_batch([jobs[i] for i in idx], timeout)):
                out[i] = o
        return out
    env = dict(os.environ)
    env["VERIF_FRAMEWORK"] = jobs[0].get("framework", "twisted") if jobs else "twisted"
    env["PYTHONPATH"] = VERIF + os.pathsep + env.get("PYTHONPATH", "")
    p = subprocess.run([PY, "-m", "symx.replay", "--batch", "-"], input=json.dumps(jobs).encode(),
                       capture_output=True, cwd=VERIF, env=env, timeout=timeout)
    out = []
    for line in p.stdout.decode(errors="replace").splitlines():
        if line.startswith("REPLAY-RESULT "):
            out.append(json.loads(line[len("REPLAY-RESULT "):]))
    if len(out) != len(jobs):
        out.extend([dict(error="batch died: " + p.stderr.decode(errors="replace")[-500:])] * (len(jobs) - len(out)))
    return out


def exec_unit_main():
    """child mode: run one unit in this fresh interpreter (framework from VERIF_FRAMEWORK)"""
    args = json.loads(sys.stdin.read())
    sys.path.insert(0, VERIF)
    from symx import instr
    instr.install()
    fw = os.environ.get("VERIF_FRAMEWORK", "twisted")
    import txaio
    if fw == "asyncio":
        txaio.use_asyncio()
    else:
        txaio.use_twisted()
    saved = os.dup(2)
    dn = os.open(os.devnull, os.O_WRONLY)
    os.dup2(dn, 2)
    try:
        out = run_unit(tuple(args))
    finally:
        os.dup2(saved, 2)
    sys.stdout.write("UNIT-RESULT " + json.dumps(out) + "\n")
    return 0


def main(argv=None):
    if (argv or sys.argv[1:])[:1] == ["--exec-unit"]:
        return exec_unit_main()
    ap = argparse.ArgumentParser()
    ap.add_argument("pid")
    ap.add_argument("--tier", default=os.environ.get("VERIF_TIER", "quick"), choices=["quick", "thorough"])
    ap.add_argument("--replay")
    ap.add_argument("--jobs", type=int, default=int(os.environ.get("VERIF_JOBS", "0")) or min(16, os.cpu_count() or 4))
    ap.add_argument("--only", help="substring filter on unit names (debugging)")
    ap.add_argument("--no-evidence", action="store_true")
    a = ap.parse_args(argv)
    pid = a.pid.upper()
    seed = int(os.environ.get("VERIF_SEED", "0") or 0)
    modname = "props." + pid.lower()
    sys.path.insert(0, VERIF)

    if a.replay:
        job = json.load(open(a.replay))
        r = plain_run(job["mod"], job["func"], job["params"], job["inputs"], framework=job.get("framework", "twisted"))
        print(json.dumps(r, indent=1))
        if r.get("failures"):
            print("VIOLATION property=%s replay=%s" % (pid, a.replay))
            return 1
        return 0 if not r.get("error") else 3

    t0 = time.time()
    from symx import instr
    instr.install()
    instr.precompile()
    if os.environ.get("VERIF_FRAMEWORK", "twisted") == "twisted":
        import txaio
        txaio.use_twisted()          # as an application would: select the framework before importing autobahn modules
    mod = importlib.import_module(modname)
    # import in the parent what every unit needs (children are forked: no per-unit file-system work)
    preload = getattr(mod, "PRELOAD", None)
    if preload is None:
        preload = ["twisted.internet.task", "twisted.internet.defer", "twisted.internet.protocol", "twisted.internet.error",
                   "twisted.protocols.basic", "autobahn.websocket.protocol", "autobahn.wamp.protocol",
                   "autobahn.wamp.serializer", "autobahn.wamp.websocket", "autobahn.wamp.component",
                   "autobahn.wamp.auth", "autobahn.wamp.cryptobox"]
        if getattr(mod, "FRAMEWORK", "twisted") == "twisted":
            preload += ["autobahn.twisted.websocket", "autobahn.twisted.rawsocket", "autobahn.twisted.wamp"]
    sys.stderr.flush()
    _saved = os.dup(2)
    _dn = os.open(os.devnull, os.O_WRONLY)
    os.dup2(_dn, 2)          # numpy/bjdata import noise of optional serializer back-ends
    try:
        for m_ in preload:
            try:
                importlib.import_module(m_)
            except Exception as e:  # noqa
                print("note: preload of %s failed: %s" % (m_, e))
    finally:
        sys.stderr.flush()
        os.dup2(_saved, 2)
        os.close(_saved)
        os.close(_dn)
    known = load_known(pid)
    units = mod.units(a.tier)
    if a.only:
        units = [u for u in units if a.only in u[0]]
    import random
    random.Random(seed).shuffle(units)
    units.sort(key=lambda u: -u[3].get("weight", 1) if len(u) > 3 else 0)
    default_budget = dict(getattr(mod, "BUDGET", {}).get(a.tier, {}))
    jobs = []
    for u in units:
        uname, fname, params = u[0], u[1], u[2]
        budget = dict(default_budget)
        if len(u) > 3:
            budget.update(u[3])
        jobs.append((pid, modname, uname, fname, params, budget, list(known)))

    ctx = multiprocessing.get_context("fork")
    import gc
    gc.collect()
    gc.freeze()
    results = []
    with ctx.Pool(processes=a.jobs, maxtasksperchild=1) as pool:
        for r in pool.imap_unordered(run_unit, jobs, chunksize=1):
            results.append(r)
            if os.environ.get("VERIF_VERBOSE"):
                print("  unit %-50s %6.1fs paths=%s %s" % (r["unit"], r.get("wall_s", 0), r.get("stats", {}).get("paths"), (r.get("inconclusive") or r.get("error") or "")), flush=True)
    explore_s = time.time() - t0

    # ---------------------------------------------------------------- aggregate
    agg = dict(paths=0, forks=0, solver_calls=0, solver_s=0.0, obligations=0, discharged=0, aborted=0)
    covers, reach, problems, samples, sources = {}, {}, [], [], {}
    violations, known_hits = [], {}
    opaque = 0
    for r in results:
        if not r.get("ok"):
            problems.append("unit %s crashed: %s" % (r["unit"], r.get("error")))
            continue
        for k in agg:
            agg[k] += r["stats"].get(k, 0)
        for k, v in r["covers"].items():
            covers[k] = covers.get(k, 0) + v
        for k, v in r["reach"].items():
            reach[k] = reach.get(k, 0) + v
        for inc in r["inconclusive"]:
            problems.append("unit %s inconclusive: %s" % (r["unit"], inc))
        for v in r["violations"]:
            violations.append((r, v))
        for kid, w in r["known_hits"].items():
            known_hits.setdefault(kid, (r, w))
        opaque += r.get("opaque_fmt", 0)
        sources.update(r.get("sources", {}))

    # ---------------------------------------------------------------- differential self-test
    diff_jobs, diff_meta = [], []
    for r in results:
        if not r.get("ok"):
            continue
        for label, c in r.get("conc_instr", {}).items():
            if "error" in c:
                problems.append("unit %s: instrumented concrete run of sample %s failed: %s" % (r["unit"], label, c["error"]))
                continue
            diff_jobs.append(dict(mod=modname, func=r["func"], params=r["params"], inputs=c["inputs"], framework=r.get("framework", "twisted")))
            diff_meta.append((r, label, c))
    validated = 0
    if diff_jobs:
        nb = max(1, min(a.jobs, len(diff_jobs)))
        chunks = [diff_jobs[i::nb] for i in range(nb)]
        metas = [diff_meta[i::nb] for i in range(nb)]
        with ctx.Pool(processes=nb) as pool:
            outs = pool.map(plain_batch, chunks)
        for ms, os_ in zip(metas, outs):
            for (r, label, c), o in zip(ms, os_):
                if o.get("error"):
                    problems.append("unit %s: plain run of sample %s failed: %s" % (r["unit"], label, o["error"]))
                elif o.get("summary") != c["summary"] or o.get("covers") != c["covers"]:
                    problems.append("unit %s: DIFFERENTIAL MISMATCH on sample %s: instrumented %s/%s vs plain %s/%s inputs=%s" % (
                        r["unit"], label, c["summary"], c["covers"], o.get("summary"), o.get("covers"), c["inputs"]))
                elif label not in o.get("covers", []):
                    problems.append("unit %s: symbolic path of class %s not reproduced by its own witness (plain covers %s)" % (
                        r["unit"], label, o.get("covers")))
                else:
                    validated += 1
                    if len(samples) < 12:
                        samples.append(dict(unit=r["unit"], outcome_class=label, inputs=c["inputs"], observed=c["summary"]))

    # ---------------------------------------------------------------- replay counterexamples
    os.makedirs(REPLAY_DIR, exist_ok=True)
    from symx.api import stable_hash
    confirmed, unreproduced = [], []
    seen = set()
    todo, per_label, not_replayed = [], {}, 0
    cap_total = int(os.environ.get("VERIF_MAX_REPLAYS", "48"))
    for r, v in violations:
        job = dict(pid=pid, mod=modname, unit=r["unit"], func=r["func"], params=r["params"], inputs=v["inputs"],
                   label=v["label"], info=v.get("info"), framework=r.get("framework", "twisted"))
        h = stable_hash([job["unit"], job["label"], job["inputs"]])
        if h in seen:
            continue
        seen.add(h)
        # every witness is a solver model; only replayed ones are ever reported. Replay a bounded, label-diverse selection.
        k = per_label.get(v["label"], 0)
        if len(todo) >= cap_total or k >= int(os.environ.get("VERIF_MAX_REPLAYS_PER_LABEL", "6")):
            not_replayed += 1
            continue
        per_label[v["label"]] = k + 1
        todo.append((h, job, r, v))
    if todo:
        from multiprocessing.pool import ThreadPool
        with ThreadPool(min(16, len(todo))) as tp:
            outs = tp.map(lambda x: plain_run(modname, x[2]["func"], x[2]["params"], x[3]["inputs"], framework=x[2].get("framework", "twisted")), todo)
        for (h, job, r, v), o in zip(todo, outs):
            if o.get("failures"):
                path = os.path.join(REPLAY_DIR, "%s-%s.json" % (pid, h))
                json.dump(job, open(path, "w"), indent=1)
                confirmed.append((path, job, o))
            else:
                unreproduced.append((job, o))
    if not_replayed:
        print("note: %d further solver witnesses were not replayed (replay cap %d, 6 per label) and are not reported" % (not_replayed, cap_total))
    known_confirmed = []
    for kid, (r, w) in known_hits.items():
        o = plain_run(modname, r["func"], r["params"], w["inputs"], framework=r.get("framework", "twisted"))
        if o.get("failures"):
            known_confirmed.append((kid, w))
        else:
            problems.append("known finding %s: witness does not reproduce on the plain code (stale entry or wrong model): %s" % (kid, o))

    for job, o in unreproduced:
        problems.append("counterexample for %s/%s did not reproduce on the plain code (model or stub wrong): inputs=%s plain=%s" % (
            job["unit"], job["label"], job["inputs"], o))

    expect = list(getattr(mod, "EXPECT_COVERS", {}).get(a.tier, getattr(mod, "EXPECT_COVERS", {}).get("quick", []))) \
        if isinstance(getattr(mod, "EXPECT_COVERS", None), dict) else list(getattr(mod, "EXPECT_COVERS", []))
    if not a.only and not confirmed:
        for lab in expect:
            if not covers.get(lab):
                problems.append("vacuity guard: outcome class %r was never reached" % lab)
    if agg["obligations"] == 0:
        problems.append("vacuity guard: no obligation was reached")

    # ---------------------------------------------------------------- report
    for kid, w in known_confirmed:
        print("KNOWN-FINDING: property=%s %s: %s (witness %s)" % (pid, kid, known[kid].get("what", ""), json.dumps(w["inputs"])[:300]))
    for path, job, o in confirmed:
        print("VIOLATION property=%s replay=%s" % (pid, path))
        print("  unit=%s label=%s info=%s plain-failures=%s" % (job["unit"], job["label"], job.get("info"), o.get("failures")))
    for p in problems[:40]:
        print("INCONCLUSIVE:", p[:1500])

    wall = time.time() - t0
    status = 1 if confirmed else (3 if problems else 0)
    if not a.no_evidence and not a.only:
        os.makedirs(EVID_DIR, exist_ok=True)
        funcs = list(getattr(mod, "FUNCTIONS", []))
        ev = dict(
            property_id=pid, tier=a.tier, seed=seed, level="model_checking",
            coverage=dict(
                states=agg["paths"], transitions=agg["forks"] + agg["solver_calls"],
                traces_validated_against_impl=validated,
                samples=samples or [dict(note="no sample (run inconclusive)")],
                obligations=agg["obligations"], discharged=agg["discharged"],
                unknown=sum(1 for p in problems if "unknown" in p),
                paths=agg["paths"], forks=agg["forks"], solver_queries=agg["solver_calls"], solver_s=round(agg["solver_s"], 2),
                infeasible_paths_pruned=agg["aborted"],
                work_units=len(results), outcome_classes=covers, assertion_sites_reached=reach,
                reachability_twin="every assertion label listed in assertion_sites_reached was reached on a feasible path (check(False) there would be violated); expected outcome classes all non-empty: %s" % (not any("vacuity" in p for p in problems)),
                functions_encoded=funcs, sources_read=sorted("%s sha1=%s" % (v[0], v[1][:12]) for v in sources.values()),
                bounds=getattr(mod, "BOUNDS", {}).get(a.tier, ""), stubs=list(getattr(mod, "STUBS", [])),
                opaque_renderings=opaque, known_findings_matched=[k for k, _ in known_confirmed],
                exhaustive=False, engine="SYMX (z3 %s): symbolic execution of the instrumented working-tree source; verdict per path = z3 on path AND NOT property" % _z3v(),
                explore_wall_s=round(explore_s, 1), problems=problems[:20],
            ),
            assumptions=list(getattr(mod, "ASSUMPTIONS", [])),
            wall_s=round(wall, 2), violations=len(confirmed),
        )
        json.dump(ev, open(os.path.join(EVID_DIR, "%s.json" % pid), "w"), indent=1)
    print("%s tier=%s units=%d paths=%d obligations=%d discharged=%d solver=%.1fs validated=%d wall=%.1fs -> exit %d" % (
        pid, a.tier, len(results), agg["paths"], agg["obligations"], agg["discharged"], agg["solver_s"], validated, wall, status))
    return status


def _z3v():
    try:
        import z3
        return z3.get_version_string()
    except Exception:
        return "?"


if __name__ == "__main__":
    sys.exit(main())
