"""C14  Components reconnect within their retry budget and finish exactly once."""
import random as _random
from . import wslib
from symx.env import FakeTransport, Trace, NULLLOG, ModProxy

PID = "C14"
FUNCTIONS = [
    "autobahn.wamp.component: _Transport.__init__ / reset / failed / can_reconnect / next_delay, _create_transport",
    "autobahn.wamp.component: Component._start (transport_check / attempt_connect / handle_connect_error / notify_connect_error / error), _can_reconnect, _connect_once (on_leave / on_join / on_disconnect / on_error), stop",
    "autobahn.twisted.component: Component._connect_transport (connection-lost wrapper), start, _create_transport_factory / _create_transport_endpoint",
    "autobahn.util: ObservableMixin.on / fire (event bubbling from sessions to the component)",
    "autobahn.twisted.rawsocket + autobahn.wamp.protocol: the real RawSocket client transport and ApplicationSession run underneath",
]
STUBS = ["IStreamClientEndpoint -> scripted endpoint: every connect() is answered by the harness (refused / connected + scripted router behaviour)",
         "reactor, txaio.sleep / call_later -> twisted Clock (virtual time)", "random.normalvariate -> returns its mean in history runs; a free non-NaN double in the back-off lemma",
         "lower transport -> recording object; loggers -> empty bodies"]
ASSUMPTIONS = [
    "Twisted component over a RawSocket(json) transport; the asyncio _connect_transport and TLS/WebSocket endpoint creation are not driven",
    "per-attempt outcomes, fatal classification and the position of stop() are free choices (case split); retry parameters are concrete per unit, the jitter sample is a free IEEE double (non-NaN) in the lemma unit",
    "when main() raises, the code keeps reconnecting while attempts are left (start() then fails with 'exhausted'): only exactly-once completion and the error polarity are asserted for that case",
]
BOUNDS = {"quick": "<= 4 attempts over 1-2 transports, max_retries in {0,1,2} per transport, 7 outcomes per attempt (refused, transport handshake failure, ABORT, joined then lost cleanly/uncleanly, joined then left, stop() while joining), fatal flag per failure, stop() before any attempt; back-off lemma over all doubles; asyncio: outcome hs-fail-early (refusal processed before the create_connection() result reaches the component)",
          "thorough": "<= 6 attempts, 3 transports"}
EXPECT_COVERS = ["attempt:hs-fail-early", "stop:joining", "end:success", "end:exhausted", "end:stopped", "attempt:refused", "attempt:joined-lost", "fatal", "delay:lemma", "listeners"]
BUDGET = {"quick": dict(wall_s=300, max_paths=40000, diff_samples=3), "thorough": dict(wall_s=2400, max_paths=500000)}

OUTCOMES = ["refused", "hs-fail", "abort", "joined-lost", "joined-leave", "joined-lost-unclean", "stop-while-joining", "hs-fail-early"]


def _mk_endpoint(clock, log, idx):
    from zope.interface import implementer
    from twisted.internet.interfaces import IStreamClientEndpoint
    from twisted.internet.defer import Deferred

    @implementer(IStreamClientEndpoint)
    class Ep:
        def __init__(self):
            self.pending = None

        def connect(self, factory):
            d = Deferred()
            self.pending = (factory, d)
            log.append(("connect", idx, clock.seconds()))
            return d

        def __repr__(self):
            return "<scripted endpoint %d>" % idx
    return Ep()


class _TwEnv:
    """Twisted flavour: scripted IStreamClientEndpoint objects, task.Clock as reactor"""
    fw = "twisted"

    def __init__(self, ntrans):
        self.clock = wslib.setup_twisted()
        self.log = []
        self.eps = [_mk_endpoint(self.clock, self.log, i) for i in range(ntrans)]

    def transport_cfg(self, i, **kw):
        return dict(type="rawsocket", url="rs://localhost:%d" % (9000 + i), endpoint=self.eps[i], serializer="json", **kw)

    def component(self, **kw):
        from autobahn.twisted.component import Component
        return Component(**kw)

    def start(self, comp, done):
        d = comp.start(reactor=self.clock)
        d.addCallbacks(lambda r: done.append(("ok", r)), lambda f: done.append(("err", f.value)))

    def main_fn(self, main_calls):
        def main(reactor, session):
            main_calls.append(session)
            return None
        return main

    def now(self):
        return self.clock.seconds()

    def timers(self):
        return [c.getTime() for c in self.clock.getDelayedCalls()]

    def advance_to(self, t):
        self.clock.advance(max(0.0, t - self.clock.seconds()))

    def drain(self):
        wslib.drain(self.clock, dt=0.0001)

    def pending(self, i):
        return self.eps[i].pending is not None

    def any_pending(self):
        return any(e.pending for e in self.eps)

    def refuse(self, i):
        from twisted.python.failure import Failure
        from twisted.internet.error import ConnectionRefusedError
        factory, cd = self.eps[i].pending
        self.eps[i].pending = None
        cd.errback(Failure(ConnectionRefusedError()))

    def connect(self, i, early=None):
        from twisted.python.failure import Failure
        from twisted.internet.error import ConnectionDone, ConnectionLost
        factory, cd = self.eps[i].pending
        self.eps[i].pending = None
        proto = factory.buildProtocol(None)
        proto.log = NULLLOG
        tr = FakeTransport(Trace(), "X")
        proto.makeConnection(tr)
        if early is not None:
            # the peer's refusal is processed before the framework hands the connect result to the component
            proto.dataReceived(early)
            proto.connectionLost(Failure(ConnectionDone()))
        cd.callback(proto)

        class IO:
            transport = tr

            def rx(self_, data):
                proto.dataReceived(data)

            def lost(self_, clean=True):
                proto.connectionLost(Failure(ConnectionDone() if clean else ConnectionLost()))
        return IO()


class _AioEnv:
    """asyncio flavour: a real SelectorEventLoop with virtual time whose create_connection() is answered by the harness"""
    fw = "asyncio"

    def __init__(self, ntrans):
        import asyncio
        import txaio
        txaio.use_asyncio()
        env = self
        self.log = []
        self.pend = {}

        class VLoop(asyncio.SelectorEventLoop):
            _vt = 0.0

            def time(self):
                return self._vt

            def create_connection(self, protocol_factory, host=None, port=None, **kw):
                fut = self.create_future()
                idx = port - 9000
                env.pend[idx] = (protocol_factory, fut)
                env.log.append(("connect", idx, self._vt))

                async def cc():
                    return await fut
                return cc()
        self.loop = VLoop()
        asyncio.set_event_loop(self.loop)
        txaio.config.loop = self.loop
        self.loop.verif_errors = []
        self.loop.set_exception_handler(lambda lp, ctx: lp.verif_errors.append(repr(ctx.get("exception") or ctx.get("message"))))

    def transport_cfg(self, i, **kw):
        return dict(type="rawsocket", url="rs://localhost:%d" % (9000 + i), endpoint=dict(type="tcp", host="localhost", port=9000 + i), serializer="json", **kw)

    def component(self, **kw):
        from autobahn.asyncio.component import Component
        return Component(**kw)

    def start(self, comp, done):
        import txaio
        f = comp.start(loop=self.loop)
        txaio.add_callbacks(f, lambda r: done.append(("ok", r)), lambda fail: done.append(("err", fail.value)))
        wslib.run_loop(self.loop)

    def main_fn(self, main_calls):
        def main(reactor, session):
            main_calls.append(session)
            return None
        return main

    def now(self):
        return self.loop._vt

    def timers(self):
        return [h.when() for h in self.loop._scheduled if not h.cancelled()]

    def advance_to(self, t):
        self.loop._vt = max(self.loop._vt, t)
        wslib.run_loop(self.loop)

    def drain(self):
        wslib.run_loop(self.loop)

    def pending(self, i):
        return i in self.pend

    def any_pending(self):
        return bool(self.pend)

    def refuse(self, i):
        factory, fut = self.pend.pop(i)
        fut.set_exception(ConnectionRefusedError())
        wslib.run_loop(self.loop)

    def connect(self, i, early=None):
        factory, fut = self.pend.pop(i)
        proto = factory()
        proto.log = NULLLOG
        tr = FakeTransport(Trace(), "X")
        proto.connection_made(tr)
        if early is not None:
            # the peer's refusal is processed before the loop hands the create_connection() result to the component
            proto.data_received(early)
            proto.connection_lost(None)
        fut.set_result((tr, proto))
        loop = self.loop
        wslib.run_loop(loop)

        class IO:
            transport = tr

            def rx(self_, data):
                proto.data_received(data)
                wslib.run_loop(loop)

            def lost(self_, clean=True):
                proto.connection_lost(None if clean else ConnectionResetError())
                wslib.run_loop(loop)
        return IO()


def history(sx, ntrans, retries, A, with_main, stop_at, fw="twisted"):
    import struct
    import autobahn.wamp.component as wc
    from autobahn.wamp import message, role
    from autobahn.wamp.serializer import JsonSerializer
    env = _TwEnv(ntrans) if fw == "twisted" else _AioEnv(ntrans)
    wc.random = ModProxy(_random, normalvariate=lambda mu, sigma: mu)
    log = env.log          # ("connect", transport idx, time)
    MAXD, INIT, GROW = 8.0, 1.0, 2.0
    cfg = [env.transport_cfg(i, max_retries=retries[i], max_retry_delay=MAXD, initial_retry_delay=INIT, retry_delay_growth=GROW, retry_delay_jitter=0.1)
           for i in range(ntrans)]
    events = []
    fatal_flags = []

    def is_fatal(e):
        f = sx.flag("fatal%d" % len(fatal_flags))
        fatal_flags.append(f)
        return f

    main_calls = []
    main = env.main_fn(main_calls)
    comp = env.component(transports=cfg, realm="realm1", is_fatal=is_fatal, main=main if with_main else None)
    comp.log = NULLLOG
    # listeners with the documented signatures (what is fired, and how - positionally or by keyword - is part of the interface)
    was_clean_seen = []
    comp.on("connect", lambda session, protocol: events.append("connect"))
    comp.on("join", lambda session, details: events.append("join"))
    comp.on("ready", lambda session: events.append("ready"))
    comp.on("leave", lambda session, details: events.append("leave"))

    def on_disconnect(session, was_clean):
        events.append("disconnect")
        was_clean_seen.append(was_clean)
    comp.on("disconnect", on_disconnect)
    done = []
    env.start(comp, done)
    ser = JsonSerializer()
    roles = {"broker": role.RoleBrokerFeatures(), "dealer": role.RoleDealerFeatures()}
    # shadow model of the retry budget
    attempts = [0] * ntrans
    dead = [False] * ntrans
    sessions = 0
    still_open = 0       # sessions whose connection the harness left open at the end (stop() while joining)
    hist = []
    finished = None      # "success" | "stopped" once the component is expected to complete successfully
    last_end = 0.0
    info = dict(ntrans=ntrans, retries=retries, with_main=with_main, stop_at=stop_at, fw=fw)

    def can(i):
        return (not dead[i]) and (retries[i] == -1 or attempts[i] < retries[i] + 1)

    rr = 0   # round-robin cursor
    for a in range(A):
        inflight = False
        if stop_at == a:
            # on asyncio a zero-delay retry is already under way when the harness gets to call stop() (the loop ran the sleep(0) task and
            # create_connection() is pending): that attempt began BEFORE stop() - only attempts begun afterwards are "after stop()"
            inflight = env.any_pending()
            comp.stop()
            env.drain()
            finished = finished or "stopped"
        # let timers run until a connect is pending, bounded by the maximum retry delay
        n0 = len(log) - (1 if env.any_pending() else 0)
        t0 = env.now()
        while len(log) == n0 and not done and env.now() - t0 <= MAXD + 1.0:
            calls = [t for t in env.timers() if t <= t0 + MAXD + 1.0 or fw == "twisted"]
            if not calls:
                break
            env.advance_to(min(calls))
        if len(log) == n0:
            break
        _, ti, when = log[-1]
        hinfo = dict(info, attempt=a, hist=list(hist))
        # --- which transport, and when
        exp = None
        for k in range(ntrans):
            j = (rr + k) % ntrans
            if can(j):
                exp = j
                rr = j + 1
                break
        sx.check(exp is not None, "no-attempt-when-every-transport-is-exhausted-or-failed", info=hinfo)
        sx.check(finished is None or inflight, "no-attempt-after-the-component-finished-or-was-stopped", info=hinfo)
        if exp is None:
            break
        sx.check(ti == exp, "transports-tried-round-robin", info=dict(hinfo, got=ti, want=exp))
        first = attempts[ti] == 0
        attempts[ti] += 1
        sx.check(retries[ti] == -1 or attempts[ti] <= retries[ti] + 1, "at-most-max_retries+1-attempts-since-last-join", info=hinfo)
        gap = when - last_end
        if first:
            sx.check(gap <= 1e-6, "first-attempt-of-a-transport-is-immediate", info=dict(hinfo, gap=gap))
        sx.check(gap <= MAXD + 1e-6, "wait-between-attempts<=max_retry_delay", info=dict(hinfo, gap=gap))
        # --- scripted outcome
        # "hs-fail-early" (refusal processed before the connect result reaches the component) exists on asyncio only: create_connection() hands
        # its result over through a future, a loop turn after connection_made(); a Twisted endpoint fires its Deferred inside connectionMade
        out = OUTCOMES[sx.choice("outcome%d" % a, len(OUTCOMES) if fw == "asyncio" else len(OUTCOMES) - 1)]
        if finished and out == "stop-while-joining":
            out = "abort"          # stop() has been called already (a second stop() is not among the histories of the property)
        hist.append((ti, out))
        nf = len(fatal_flags)
        if out == "refused":
            env.refuse(ti)
            sx.cover("attempt:refused")
        elif out == "hs-fail-early":
            io = env.connect(ti, early=b"\x00\x00\x00\x00")
            sx.cover("attempt:hs-fail-early")
        else:
            io = env.connect(ti)
            if out == "hs-fail":
                io.rx(b"\x00\x00\x00\x00")
                io.lost(True)
            else:
                io.rx(bytes([0x7F, 0xF1, 0, 0]))
                sessions += 1

                def feed(m):
                    dd, _ = ser.serialize(m)
                    io.rx(struct.pack("!I", len(dd)) + dd)
                if out == "stop-while-joining":
                    # stop() after the transport handshake (HELLO is out) and before the router answered
                    comp.stop()
                    env.drain()
                    finished = finished or "stopped"
                    io.transport.take()
                    feed(message.Welcome(100 + a, roles))
                    env.drain()
                    # a well-behaved router: answers a GOODBYE (an implementation may leave only after the join went through) and
                    # otherwise leaves the connection alone - start() must complete without the connection being lost
                    raw = bytes(wslib.concat(io.transport.take()))
                    pos, said_goodbye = 0, False
                    while pos + 4 <= len(raw):
                        n = struct.unpack("!I", raw[pos:pos + 4])[0]
                        for mm in ser.unserialize(raw[pos + 4:pos + 4 + n]):
                            said_goodbye = said_goodbye or isinstance(mm, message.Goodbye)
                        pos += 4 + n
                    if said_goodbye:
                        feed(message.Goodbye("wamp.close.goodbye_and_out"))
                        io.lost(True)
                    else:
                        still_open += 1
                    sx.cover("stop:joining")
                elif out == "abort":
                    feed(message.Abort("wamp.error.no_such_realm", "nope"))
                    io.lost(True)
                else:
                    feed(message.Welcome(100 + a, roles))
                    if with_main:
                        attempts[ti] = 0          # transport.reset() on a successful join (registered together with main)
                    env.drain()
                    if out == "joined-leave" or (with_main and main_calls):
                        # the session is left normally: by the router, or by the component after main() returned
                        if out == "joined-leave" and not with_main:
                            feed(message.Goodbye("wamp.close.normal"))
                        else:
                            feed(message.Goodbye("wamp.close.goodbye_and_out"))
                        io.lost(True)
                        finished = finished or "success"
                        hist[-1] = (ti, "joined-left-normally")
                    elif out == "joined-lost":
                        io.lost(True)
                        sx.cover("attempt:joined-lost")
                    else:
                        io.lost(False)
                        sx.cover("attempt:joined-lost")
        last_end = env.now()
        # fatal classification (free) applies to failures reported to the reconnect loop
        if len(fatal_flags) > nf and fatal_flags[-1] and finished is None:
            dead[ti] = True
            sx.cover("fatal")
        if done:
            break
    # let everything settle
    for _ in range(6):
        calls = [t for t in env.timers() if t <= env.now() + MAXD + 1.0 or fw == "twisted"]
        if not calls or done:
            break
        env.advance_to(min(calls))
        if env.any_pending():
            break
    info = dict(info, hist=hist, done=repr(done)[:120])
    sx.check(len(done) <= 1, "start()-result-completes-at-most-once", info=info)
    anycan = any(can(i) for i in range(ntrans))
    pending_connect = env.any_pending()
    if finished in ("success", "stopped"):
        sx.check(len(done) == 1 and done[0][0] == "ok", "normal-leave/main-finished/stop()=>start()-succeeds-once", info=info)
        sx.check(not pending_connect, "no-new-attempt-after-finishing", info=info)
        sx.cover("end:success" if finished == "success" else "end:stopped")
    elif not anycan:
        sx.check(len(done) == 1 and done[0][0] == "err", "all-transports-exhausted=>start()-fails-once", info=info)
        sx.check(not pending_connect, "no-attempt-beyond-the-budget", info=info)
        sx.cover("end:exhausted")
    else:
        # attempts are left and nothing finished the component: it must still be trying
        sx.check(len(done) == 0, "not-finished-while-attempts-are-left", info=info)
        sx.check(pending_connect or bool(env.timers()), "keeps-reconnecting-while-attempts-are-left", info=info)
    # listeners registered on the component see every session
    sx.check(events.count("connect") == sessions, "component-connect-listener-per-session", info=dict(info, events=events, sessions=sessions))
    sx.check(events.count("disconnect") == sessions - still_open, "component-disconnect-listener-per-session", info=dict(info, events=events))
    sx.check(events.count("join") == events.count("ready") and events.count("leave") >= events.count("join") - still_open, "join/ready/leave-listeners", info=dict(info, events=events))
    sx.cover("listeners")
    return [hist, done and done[0][0]]


class SymFloat:
    """IEEE double as a z3 Float64 (only what _Transport.next_delay needs)"""

    def __init__(self, e):
        self.e = e

    def _lift(self, o):
        import z3
        return o.e if isinstance(o, SymFloat) else z3.FPVal(float(o), z3.Float64())

    def __mul__(self, o):
        import z3
        return SymFloat(z3.fpMul(z3.RNE(), self.e, self._lift(o)))

    __rmul__ = __mul__

    def _cmp(self, o, f):
        from symx.core import mkbool
        return mkbool(f(self.e, self._lift(o)))

    def __gt__(self, o):
        import z3
        return self._cmp(o, z3.fpGT)

    def __lt__(self, o):
        import z3
        return self._cmp(o, z3.fpLT)

    def __ge__(self, o):
        import z3
        return self._cmp(o, z3.fpGEQ)

    def __le__(self, o):
        import z3
        return self._cmp(o, z3.fpLEQ)


def backoff_lemma(sx, attempts_before):
    """_Transport.next_delay(): 0 for the first attempt, afterwards <= max_retry_delay whatever the jitter sample (any non-NaN double)"""
    import z3
    import autobahn.wamp.component as wc
    from symx.core import CTX
    nv = SymFloat(z3.FP("normalvariate", z3.Float64())) if CTX.active else float(sx.inputs.get("nv", 123.0))
    if CTX.active:
        CTX.solver.add(z3.Not(z3.fpIsNaN(nv.e)))
    seen = []

    def normalvariate(mu, sigma):
        seen.append((mu, sigma))
        return nv
    wc.random = ModProxy(_random, normalvariate=normalvariate)
    t = wc._Transport(0, "rawsocket", "rs://x:1", None, ["json"], max_retries=-1, max_retry_delay=20.0, initial_retry_delay=1.5, retry_delay_growth=1.5, retry_delay_jitter=0.1)
    t.connect_attempts = attempts_before
    t.retry_delay = 1.5 * (1.5 ** max(0, attempts_before - 1)) if attempts_before < 8 else 19.0
    d = t.next_delay()
    if attempts_before == 0:
        sx.check(d == 0, "first-attempt-delay-is-zero")
    else:
        sx.check(len(seen) == 1, "one-jitter-sample")
        sx.check(d <= 20.0, "delay<=max_retry_delay-for-every-jitter-sample")
        sx.check(d >= 0.0 if not isinstance(d, SymFloat) else True, "noop")
    sx.cover("delay:lemma")
    return [attempts_before]


def units(tier):
    U = []
    q = tier == "quick"
    A = 4 if q else 6
    for ntrans, retries in ((1, [0]), (1, [1]), (1, [2]), (2, [0, 1]), (2, [1, 1]), (2, [2, 0])) + (() if q else ((3, [1, 0, 1]), (2, [-1, 0]))):
        for with_main in (False, True):
            for stop_at in (None, 0, 1, 2):
                if q and stop_at is not None and (with_main or ntrans == 2 and retries != [0, 1]):
                    continue
                U.append(("hist/%s/%s/stop%s" % ("-".join(map(str, retries)), "main" if with_main else "nomain", stop_at), "history",
                          dict(ntrans=ntrans, retries=retries, A=A, with_main=with_main, stop_at=stop_at), dict(weight=5)))
    # the asyncio component (its own _connect_transport / connection-lost wrapper) on a virtual-time event loop, own interpreter per unit
    for ntrans, retries in ((1, [1]), (2, [0, 1])) + (() if q else ((1, [2]), (2, [1, 1]))):
        for with_main in (False, True):
            for stop_at in ((None,) if q else (None, 1)):
                U.append(("aio/%s/%s/stop%s" % ("-".join(map(str, retries)), "main" if with_main else "nomain", stop_at), "history",
                          dict(ntrans=ntrans, retries=retries, A=3 if q else 4, with_main=with_main, stop_at=stop_at, fw="asyncio"), dict(weight=9, framework="asyncio")))
    for k in (0, 1, 2, 5, 9):
        U.append(("backoff/%d" % k, "backoff_lemma", dict(attempts_before=k)))
    return U
