"""C12 genuine defect: permessage-brotli with context takeover (the default negotiation) - end_compress_message() calls
Compressor.finish(), and the next message reuses the finished encoder: brotli.error("encoder failed") escapes sendMessage() for the
SECOND message of a connection.  Second face: a side that resets its own compressor per message without having been asked to (the
documented `no_context_takeover` override of the accept objects) is not understood by the peer, whose finished decoder is reused:
brotli.error("decoder failed") escapes dataReceived().  Uses the real brotli module.
Run: /venv/bin/python findings/c12_brotli_context_takeover_demo.py [tree]"""
import sys
sys.path.insert(0, (sys.argv[1] if len(sys.argv) > 1 else "/repo") + "/src")
import txaio
txaio.use_twisted()
from twisted.internet.task import Clock
from twisted.internet.address import IPv4Address
from autobahn.twisted.websocket import WebSocketClientFactory, WebSocketClientProtocol, WebSocketServerFactory, WebSocketServerProtocol
from autobahn.websocket.compress import PerMessageBrotliOffer, PerMessageBrotliOfferAccept, PerMessageBrotliResponse, PerMessageBrotliResponseAccept


class T:
    def __init__(self): self.out = []; self.closed = False
    def write(self, d): self.out.append(bytes(d))
    def writeSequence(self, s): self.out.extend(bytes(x) for x in s)
    def loseConnection(self): self.closed = True
    abortConnection = loseConnection
    def getPeer(self): return IPv4Address("TCP", "127.0.0.1", 1)
    getHost = getPeer
    def setTcpNoDelay(self, v): pass
    def registerProducer(self, *a): pass
    def unregisterProducer(self): pass
    def take(self):
        o = b"".join(self.out); self.out = []; return o


def run(offer, srv_kw, cli_override):
    got = {"S": [], "C": []}

    class S(WebSocketServerProtocol):
        def onMessage(self, p, b): got["S"].append(p)

    class C(WebSocketClientProtocol):
        def onMessage(self, p, b): got["C"].append(p)
    clock = Clock()
    sf = WebSocketServerFactory("ws://localhost:9000", reactor=clock); sf.protocol = S
    sf.setProtocolOptions(perMessageCompressionAccept=lambda offers: next((PerMessageBrotliOfferAccept(o, **srv_kw) for o in offers if isinstance(o, PerMessageBrotliOffer)), None))
    cf = WebSocketClientFactory("ws://localhost:9000", reactor=clock); cf.protocol = C
    cf.setProtocolOptions(perMessageCompressionOffers=[offer],
                          perMessageCompressionAccept=lambda r: PerMessageBrotliResponseAccept(r, no_context_takeover=cli_override) if isinstance(r, PerMessageBrotliResponse) else None)
    s = sf.buildProtocol(None); c = cf.buildProtocol(None)
    st, ct = T(), T()
    s.makeConnection(st); c.makeConnection(ct)
    s.dataReceived(ct.take()); c.dataReceived(st.take())
    assert type(s._perMessageCompress).__name__ == "PerMessageBrotli", s._perMessageCompress
    msgs = [b"first message " * 3, b"second message " * 3, b"", b"fourth"]
    bad = []
    for snd, rcv, t, who in ((c, s, ct, "S"), (s, c, st, "C")):
        try:
            for m in msgs:
                snd.sendMessage(m, isBinary=True)
        except Exception as e:
            bad.append("sendMessage raised %s: %s" % (type(e).__name__, e))
            continue
        clock.advance(0.1)
        try:
            rcv.dataReceived(t.take())
        except Exception as e:
            bad.append("dataReceived raised %s: %s" % (type(e).__name__, e))
            continue
        if got[who] != msgs:
            bad.append("%s received %r" % (who, got[who]))
    return bad


cases = [("context takeover both ways (defaults)", PerMessageBrotliOffer(), {}, None),
         ("no context takeover both ways", PerMessageBrotliOffer(True, True), dict(request_no_context_takeover=True), None),
         ("server resets its own compressor unasked", PerMessageBrotliOffer(), dict(no_context_takeover=True), None),
         ("client resets its own compressor unasked", PerMessageBrotliOffer(), {}, True)]
rc = 0
for name, offer, skw, co in cases:
    bad = run(offer, skw, co)
    print("%-45s %s" % (name, "ok" if not bad else "DEFECT: " + "; ".join(bad)))
    rc |= bool(bad)
sys.exit(rc)
