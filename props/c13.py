"""C13  WAMP transports attach a session only after valid negotiation and fail closed."""
import os
import struct
from . import wslib, transports
from symx.env import FakeTransport, Trace, NULLLOG

PID = "C13"
FUNCTIONS = [
    "autobahn.twisted.rawsocket: WampRawSocketServerProtocol.dataReceived / WampRawSocketClientProtocol.connectionMade+dataReceived (4-octet handshake), _on_handshake_complete, stringReceived (exception ladder), send, abort, connectionLost, lengthLimitExceeded",
    "autobahn.asyncio.rawsocket: PrefixProtocol.data_received / sendString, RawSocketProtocol.parse_handshake / data_received, RawSocketClientProtocol / RawSocketServerProtocol.process_handshake, WampRawSocketMixinGeneral (_on_handshake_complete, stringReceived, send), WampRawSocketMixinAsyncio (_on_connection_lost, close, abort), supports_serializer",
    "autobahn.wamp.websocket: parseSubprotocolIdentifier, WampWebSocketServerProtocol.onConnect, WampWebSocketClientProtocol.onConnect, WampWebSocketProtocol.onOpen / onMessage / _bailout / onClose / send / close / abort, WampWebSocketFactory.__init__",
    "autobahn.twisted.websocket: WampWebSocketServerFactory / ClientFactory (protocol lists), adapter glue",
]
STUBS = ["lower transport -> recording object; sessions -> recording ISession objects (onOpen/onMessage/onClose counted, may be told to raise)",
         "WebSocket opening handshake driven with canned HTTP requests/responses around the real processHandshake code", "serializers run for real on concrete messages (C codecs); a length-only stub serializer is used for the size-limit arithmetic",
         "Twisted's Int32StringReceiver (library code) is executed concretely; frame prefixes fed to it are concrete boundary values, those fed to the repository's own asyncio PrefixProtocol are free octets"]
ASSUMPTIONS = [
    "WebSocket negotiation is checked on the Twisted adapter and, for a subset of the settings, on the asyncio adapter (hand-stepped event loop); RawSocket on both frameworks; message streams/corruption over WebSocket on Twisted only",
]
BOUNDS = {
    "quick": "RawSocket handshake: all 4 octets free (2^32 values) x every 1-cut segmentation + octet-wise, both roles, both frameworks, serializer sets {json},{json,msgpack}; send limit: all 16 peer exponents x lengths {limit-1, limit, limit+1}; receive limit: asyncio free 4-octet prefix, Twisted boundary prefixes; WebSocket: client lists = all ordered selections of <= 3 of 5 subprotocol ids x server sets from 4 subsets; 3-message streams under every 1-cut segmentation; 6 corruption kinds",
    "thorough": "2-cut segmentations, client lists up to 4 ids, all 16 server subsets",
}
EXPECT_COVERS = ["hs:attached", "hs:refused", "limit:sent", "limit:refused", "rx:too-long-rejected", "ws:selected", "ws:denied", "stream:intact", "corrupt:closed", "lost:once"]
BUDGET = {"quick": dict(wall_s=300, max_paths=30000, diff_samples=3), "thorough": dict(wall_s=2400, max_paths=400000)}


class RecSession:
    """ISession stand-in counting the transport-handler calls"""

    def __init__(self, log, raise_on_message=False, raise_on_open=False):
        self.log, self.rom, self.roo = log, raise_on_message, raise_on_open
        self._transport = None
        self._authid = None
        self._session_id = None

    def onOpen(self, transport):
        self._transport = transport
        self.log.append(("open",))
        if self.roo:
            raise RuntimeError("session onOpen fails")

    def onMessage(self, msg):
        self.log.append(("msg", msg))
        if self.rom:
            raise RuntimeError("session code fails")
        from autobahn.wamp import message
        from autobahn.wamp.exception import ProtocolError
        if isinstance(msg, message.Result):
            raise ProtocolError("RESULT for unknown request")

    def onClose(self, was_clean):
        self.log.append(("close", was_clean))


def _sers(names):
    from autobahn.wamp import serializer as s
    m = {"json": s.JsonSerializer, "msgpack": getattr(s, "MsgPackSerializer", None), "cbor": getattr(s, "CBORSerializer", None)}
    return [m[n]() for n in names if m.get(n)]


def _mk_raw(fw, server, log, sers, **sk):
    if fw == "twisted":
        from autobahn.twisted import rawsocket as rs
        wslib.setup_twisted()
    else:
        from autobahn.asyncio import rawsocket as rs
        transports.aio_setup()
    fac = (lambda: RecSession(log, **sk))
    if server:
        f = rs.WampRawSocketServerFactory(fac, serializers=_sers(sers))
    else:
        f = rs.WampRawSocketClientFactory(fac, serializer=_sers(sers)[0])
    f.log = NULLLOG
    p = f.buildProtocol(None) if fw == "twisted" else f()
    p.log = NULLLOG
    tr = Trace()
    t = FakeTransport(tr, "X")
    (p.makeConnection if fw == "twisted" else p.connection_made)(t)
    rx = p.dataReceived if fw == "twisted" else p.data_received
    return p, t, rx


SER_ID = {"json": 1, "msgpack": 2, "cbor": 3}


def raw_handshake(sx, fw, server, sers, split):
    """all 2^32 handshakes: session attached <=> magic 0x7F, supported/requested serializer, reserved octets zero"""
    log = []
    p, t, rx = _mk_raw(fw, server, log, sers)
    sent_by_client = wslib.concat(t.take()) if not server else b""
    hs = sx.bytes("hs", 4)
    exc = None
    try:
        if split == "bytewise":
            for i in range(4):
                rx(hs[i:i + 1])
        else:
            c = int(split)
            if c > 0:
                rx(hs[:c])
            if c < 4:
                rx(hs[c:])
    except Exception as e:  # noqa
        exc = e
    info = dict(fw=fw, server=server, sers=sers, split=split)
    sx.check(exc is None, "no-exception-escapes-during-handshake", info=dict(info, exc=repr(exc)))
    if exc is not None:
        return ["exc"]
    ser = hs[1] & 0x0F
    supported = [SER_ID[s] for s in sers]
    ok_ser = sx.Or(*[ser == i for i in supported]) if server else (ser == supported[0])
    valid = sx.And(hs[0] == 0x7F, ok_ser, hs[2] == 0, hs[3] == 0)
    attached = len([e for e in log if e[0] == "open"]) == 1
    sx.check(sx.Iff(attached, valid), "session-attached-iff-handshake-valid", info=dict(info, attached=attached))
    sx.check(len([e for e in log if e[0] == "open"]) <= 1, "session-attached-at-most-once", info=info)
    out = wslib.concat(t.take())
    if attached:
        sx.cover("hs:attached")
        sx.check(t.closed is None, "attached=>transport-stays-open", info=info)
        sid = getattr(p._serializer, "RAWSOCKET_SERIALIZER_ID", None)
        sx.check(sid == ser, "both-sides-use-the-negotiated-serializer", info=info)
        if server:
            sx.check(len(out) == 4, "server-replies-with-4-octets", info=info)
            if len(out) == 4:
                sx.check(sx.And(out[0] == 0x7F, (out[1] & 0x0F) == ser, out[2] == 0, out[3] == 0), "server-reply-well-formed-and-echoes-serializer", info=info)
                sx.check((out[1] >> 4) == 15, "server-announces-its-maximum(2^24)", info=info)
            lim = p._max_len_send if fw == "twisted" else p.max_length_send
            want = None
        else:
            sx.check(len(out) == 0, "client-writes-nothing-more-during-handshake", info=info)
    else:
        sx.cover("hs:refused")
        sx.check(t.closed is not None, "refused=>transport-closed", info=info)
        if server and len(out):
            # an error reply, if any, must be a well-formed error reply (serializer nibble 0)
            sx.check(len(out) == 4 and bool(sx.And(out[0] == 0x7F, (out[1] & 0x0F) == 0)), "refusal-reply-is-an-error-reply", info=info)
    if not server:
        sx.check(len(sent_by_client) == 4 and sent_by_client[0] == 0x7F and (sent_by_client[1] & 0x0F) == supported[0] and (sent_by_client[1] >> 4) == 15
                 and sent_by_client[2] == 0 and sent_by_client[3] == 0, "client-request-well-formed", info=info)
    # after a refusal nothing is delivered to a session; after the transport goes away the session hears it exactly once
    from twisted.python.failure import Failure
    from twisted.internet.error import ConnectionDone
    try:
        if fw == "twisted":
            p.connectionLost(Failure(ConnectionDone()))
        else:
            p.connection_lost(None)
    except Exception as e:  # noqa
        sx.fail("exception-escapes-connection-lost", info=dict(info, exc=repr(e)))
    closes = [e for e in log if e[0] == "close"]
    sx.check(len(closes) == (1 if attached else 0), "session-told-exactly-once-that-the-transport-is-gone", info=dict(info, closes=len(closes)))
    sx.cover("lost:once")
    return [attached]


class LenSer:
    """length-only serializer stand-in (the size arithmetic does not depend on content)"""
    SERIALIZER_ID = "json"
    RAWSOCKET_SERIALIZER_ID = 1

    def __init__(self):
        self.n = 0

    def serialize(self, msg):
        return bytes(self.n), False

    def unserialize(self, payload, isBinary=None):
        return []


def send_limit(sx, fw, server):
    """for each of the 16 exponents the peer may announce: lengths limit-1 and limit go out, limit+1 raises and writes nothing"""
    from autobahn.exception import PayloadExceededError
    for e in range(0, 16):
        log = []
        p, t, rx = _mk_raw(fw, server, log, ["json"])
        t.take()
        rx(bytes([0x7F, (e << 4) | 1, 0, 0]))
        t.take()
        attached = any(x[0] == "open" for x in log)
        sx.check(attached, "attached", info=dict(e=e))
        if not attached:
            continue
        ser = LenSer()
        p._serializer = ser
        limit = 2 ** (9 + e)
        for L in (limit - 1, limit, limit + 1):
            ser.n = L
            info = dict(fw=fw, server=server, e=e, L=L, limit=limit)
            try:
                p.send(object())
                raised = None
            except PayloadExceededError as x:
                raised = x
            except Exception as x:  # noqa
                sx.fail("send-raises-something-else-than-PayloadExceededError", info=dict(info, exc=repr(x)))
                continue
            out = t.take()
            wrote = sum(len(c) for c in out)
            if L == 2 ** 24:
                # equal to the largest maximum a peer can announce, but the frame header has a 24-bit length field (octet 0 is the
                # frame type): such a message cannot be framed; the only sound outcomes are a refusal or a well-formed DATA frame
                hdr = bytes(wslib.concat(out)[:4]) if wrote >= 4 else b""
                sx.check((raised is not None and wrote == 0) or (raised is None and hdr[:1] == b"\x00" and int.from_bytes(hdr[1:], "big") == L),
                         "unframeable-2^24-message-refused-not-sent-as-another-frame-type", info=dict(info, wrote=wrote, hdr=hdr.hex()))
                sx.cover("limit:refused" if raised is not None else "limit:sent")
            elif L <= limit:
                sx.check(raised is None and wrote == 4 + L, "message-within-peer-limit-is-sent-whole", info=dict(info, wrote=wrote))
                if wrote >= 4:
                    hdr = wslib.concat(out)[:4]
                    sx.check(struct.unpack("!I", bytes(hdr))[0] == L, "length-prefix==payload-length(DATA-frame)", info=info)
                sx.cover("limit:sent")
            else:
                sx.check(raised is not None and wrote == 0, "message-over-peer-limit-raises-and-writes-nothing", info=dict(info, wrote=wrote))
                sx.cover("limit:refused")
    return []


def recv_limit(sx, fw, server):
    """an incoming frame longer than the locally announced maximum is rejected when its prefix arrives (payload withheld)"""
    log = []
    p, t, rx = _mk_raw(fw, server, log, ["json"])
    t.take()
    rx(bytes([0x7F, (15 << 4) | 1, 0, 0]))
    t.take()
    if fw == "asyncio":
        pre = sx.bytes("prefix", 4)
        ftype = pre[0] & 7
        ln = (pre[1] << 16) | (pre[2] << 8) | pre[3]
        try:
            rx(pre)
            exc = None
        except Exception as e:  # noqa
            exc = e
        # a PING/PONG frame type reaches the (unimplemented) ping()/pong() hooks: an exception handed to the event loop closes the
        # transport as well; what must not happen is delivery or silent acceptance of an unknown type
        sx.check(exc is None or isinstance(exc, NotImplementedError), "only-the-unimplemented-ping/pong-hook-may-raise", info=repr(exc))
        local_max = 2 ** 24
        too_long = ln > local_max         # cannot happen with 24 bits: asyncio announces 2^24
        bad_type = ftype > 2
        sx.check(sx.Implies(bad_type, t.closed is not None), "unknown-frame-type-closes", info=dict(closed=t.closed))
        sx.check(len([e for e in log if e[0] == "msg"]) == 0, "nothing-delivered-from-a-bare-prefix")
        sx.cover("rx:too-long-rejected")
    else:
        for ln, over in ((2 ** 24 + 1, True), (2 ** 24, False), (2 ** 31, True), (100, False)):
            log2 = []
            p, t, rx = _mk_raw(fw, server, log2, ["json"])
            t.take()
            rx(bytes([0x7F, (15 << 4) | 1, 0, 0]))
            t.take()
            exc = None
            try:
                rx(struct.pack("!I", ln))
            except Exception as e:  # noqa
                exc = e
            rejected = exc is not None or t.closed is not None
            sx.check(rejected == over, "frame-longer-than-announced-maximum-rejected-at-its-prefix", info=dict(ln=ln, exc=repr(exc), closed=t.closed))
            sx.check(len([e for e in log2 if e[0] == "msg"]) == 0, "nothing-delivered")
        sx.cover("rx:too-long-rejected")
    return []


def stream(sx, fw, server, ser, nmsg, two_cuts=False, with_hs=False):
    """after attachment a sequence of messages is delivered intact and in order under a free segmentation; with_hs: the peer's handshake
    octets are part of the same segmented stream (frames pipelined right behind the handshake)"""
    from autobahn.wamp import message
    log = []
    p, t, rx = _mk_raw(fw, server, log, [ser])
    t.take()
    hs = bytes([0x7F, (15 << 4) | SER_ID[ser], 0, 0])
    if not with_hs:
        rx(hs)
        t.take()
    s = _sers([ser])[0]
    msgs = [message.Event(7, 100 + i, args=[i, "x" * i]) for i in range(nmsg)]
    data = hs if with_hs else b""
    for m in msgs:
        d, _ = s.serialize(m)
        data += struct.pack("!I", len(d)) + d
    c1 = sx.choice("cut1", len(data) + 1)
    c2 = (len(data) * 2) // 3 if two_cuts is False else sx.choice("cut2", len(data) + 1)
    cuts = sorted((c1, c2))
    prev = 0
    try:
        for c in cuts + [len(data)]:
            if c > prev:
                rx(data[prev:c])
            prev = c
    except Exception as e:  # noqa
        sx.fail("exception-escapes-receive-path", info=repr(e))
        return ["exc"]
    got = [e[1] for e in log if e[0] == "msg"]
    sx.check(len(got) == nmsg and all(g.marshal() == m.marshal() for g, m in zip(got, msgs)), "messages-intact-in-order-under-segmentation", info=dict(cuts=cuts, got=len(got)))
    sx.check(t.closed is None, "connection-stays-open")
    # and what we send is what the peer decodes
    t.take()
    for m in msgs:
        p.send(m)
    out = wslib.concat(t.take())
    pos, dec = 0, []
    while pos + 4 <= len(out):
        n = struct.unpack("!I", bytes(out[pos:pos + 4]))[0]
        dec.extend(s.unserialize(bytes(out[pos + 4:pos + 4 + n])))
        pos += 4 + n
    sx.check(len(dec) == nmsg and all(g.marshal() == m.marshal() for g, m in zip(dec, msgs)), "sent-messages-decode-to-the-same-messages")
    sx.cover("stream:intact")
    return [cuts]


def corrupt(sx, transport_kind, kind):
    """undecodable data / protocol violation / exception in session code close the transport; the session hears the loss once"""
    from autobahn.wamp import message
    from twisted.python.failure import Failure
    from twisted.internet.error import ConnectionDone
    log = []
    sk = dict(raise_on_message=(kind == "session-raises"))
    tr = Trace()
    if transport_kind.startswith("ws"):
        h = transports.attach("tw-ws-server" if transport_kind == "ws-server" else "tw-ws-client", sx, tr, lambda: RecSession(log, **sk))
        p, t = h.proto, h.t
        mask = b"\x01\x02\x03\x04" if transport_kind == "ws-server" else None
        s = transports._json()
        good, _ = s.serialize(message.Event(7, 8, args=[1]))
        if kind == "wrong-frame-type":
            p.dataReceived(wslib.build_frame(2, good, mask=mask))          # binary frame on a JSON (text) subprotocol
        elif kind == "garbage":
            p.dataReceived(wslib.build_frame(1, b"{not json", mask=mask))
        elif kind == "protocol-violation":
            d, _ = s.serialize(message.Result(99, args=[1]))
            p.dataReceived(wslib.build_frame(1, d, mask=mask))
        elif kind == "unknown-type":
            p.dataReceived(wslib.build_frame(1, b"[999,1,2]", mask=mask))
        else:
            p.dataReceived(wslib.build_frame(1, good, mask=mask))
        wslib.drain(h.clock)
        frames, rest = wslib.parse_frames(sx, wslib.concat(t.take()))
        closes = [f for f in frames if f.opcode == 8]
        want = 1011 if kind == "session-raises" else 1002
        failed = bool(closes) or t.closed is not None
        sx.check(failed, "corruption-closes-the-websocket", info=dict(kind=kind))
        if closes and closes[0].length >= 2:
            code = (closes[0].payload[0] << 8) | closes[0].payload[1]
            sx.check(code == want, "close-status-1002-or-1011", info=dict(kind=kind, code=code, want=want))
        if kind in ("wrong-frame-type", "garbage", "unknown-type"):
            sx.check(len([e for e in log if e[0] == "msg"]) == 0, "undecodable-data-not-delivered", info=dict(kind=kind))
        p.connectionLost(Failure(ConnectionDone()))
    else:
        fw = "twisted"
        p, t, rx = _mk_raw(fw, transport_kind == "raw-server", log, ["json"], **sk)
        t.take()
        rx(bytes([0x7F, (15 << 4) | 1, 0, 0]))
        t.take()
        s = transports._json()
        good, _ = s.serialize(message.Event(7, 8, args=[1]))
        try:
            if kind == "garbage":
                rx(struct.pack("!I", 9) + b"{not json")
            elif kind == "protocol-violation":
                d, _ = s.serialize(message.Result(99, args=[1]))
                rx(struct.pack("!I", len(d)) + d)
            elif kind == "unknown-type":
                rx(struct.pack("!I", 9) + b"[999,1,2]")
            elif kind == "wrong-frame-type":
                rx(struct.pack("!I", 9) + b"\x00\x01\x02binary")
            else:
                rx(struct.pack("!I", len(good)) + good)
        except Exception as e:  # noqa
            sx.fail("exception-escapes-receive-path", info=dict(kind=kind, exc=repr(e)))
        sx.check(t.closed is not None, "corruption-aborts-the-rawsocket", info=dict(kind=kind))
        p.connectionLost(Failure(ConnectionDone()))
    closes = [e for e in log if e[0] == "close"]
    sx.check(len(closes) == 1, "session-told-exactly-once-that-the-transport-is-gone", info=dict(kind=kind, n=len(closes)))
    sx.cover("corrupt:closed")
    sx.cover("lost:once")
    return [kind]


SUBS = ["wamp.2.json", "wamp.2.json.batched", "wamp.2.msgpack", "wamp.2.cbor", "wamp.2.nosuch", "chat"]


def _ws_factory(fw, server, session_factory, sers):
    """(protocol, feed(data), transport) for a WAMP-over-WebSocket endpoint of the given framework"""
    from symx.env import Addr
    t = FakeTransport(Trace(), "S" if server else "C")
    if fw == "asyncio":
        from autobahn.asyncio import websocket as aw
        loop = wslib.setup_asyncio()
        wslib.patch_env_aio(None)
        f = (aw.WampWebSocketServerFactory if server else aw.WampWebSocketClientFactory)(session_factory, "ws://localhost:9000", serializers=sers, loop=loop)
        f.log = NULLLOG
        p = f()
        p.log = NULLLOG
        p.connection_made(t)
        wslib.run_loop(loop)

        def feed(data):
            p.data_received(data)
            wslib.run_loop(loop)
            if loop.verif_errors:
                raise RuntimeError("exception reached the event loop: %s" % loop.verif_errors[0])
        return p, feed, t
    from autobahn.twisted import websocket as tw
    clock = wslib.setup_twisted()
    wslib.patch_env(None, clock, fixed_rnd=True)
    f = (tw.WampWebSocketServerFactory if server else tw.WampWebSocketClientFactory)(session_factory, "ws://localhost:9000", serializers=sers, reactor=clock)
    f.log = NULLLOG
    p = f.buildProtocol(Addr())
    p.log = NULLLOG
    p.makeConnection(t)
    return p, p.dataReceived, t


def ws_negotiation(sx, nclient, server_set, fw="twisted"):
    """server picks the first commonly supported wamp.2.* subprotocol in the CLIENT's order; both ends then use that serializer"""
    import base64
    from autobahn.wamp import serializer as S
    # client preference list: an ordered selection without repetition (free choices)
    pool = list(SUBS)
    client = []
    for i in range(nclient):
        k = sx.choice("c%d" % i, len(pool))
        client.append(pool.pop(k))
    mk = {"wamp.2.json": lambda: S.JsonSerializer(), "wamp.2.json.batched": lambda: S.JsonSerializer(batched=True),
          "wamp.2.msgpack": lambda: S.MsgPackSerializer(), "wamp.2.cbor": lambda: S.CBORSerializer()}
    sers = [mk[n]() for n in server_set]
    log = []
    p, feed, t = _ws_factory(fw, True, lambda: RecSession(log), sers)
    key = base64.b64encode(wslib._FIXED_KEY)
    req = (b"GET / HTTP/1.1\r\nHost: localhost:9000\r\nUpgrade: websocket\r\nConnection: Upgrade\r\nSec-WebSocket-Key: " + key +
           b"\r\nSec-WebSocket-Protocol: " + ",".join(client).encode() + b"\r\nSec-WebSocket-Version: 13\r\n\r\n")
    try:
        feed(req)
    except Exception as e:  # noqa
        sx.fail("exception-escapes-handshake", info=repr(e))
        return ["exc"]
    resp = bytes(wslib.concat(t.take()))
    common = [c for c in client if c in server_set]
    info = dict(client=client, server=server_set, fw=fw)
    attached = any(e[0] == "open" for e in log)
    if common:
        want = common[0]
        sx.check(resp.startswith(b"HTTP/1.1 101"), "handshake-succeeds-when-a-subprotocol-is-shared", info=info)
        sx.check(b"Sec-WebSocket-Protocol: " + want.encode() + b"\r\n" in resp, "server-selects-first-common-subprotocol-in-clients-order", info=dict(info, want=want))
        sx.check(attached, "session-attached", info=info)
        if attached:
            sid = want[len("wamp.2."):]
            sx.check(p._serializer.SERIALIZER_ID == sid, "server-uses-the-announced-serializer", info=dict(info, got=p._serializer.SERIALIZER_ID))
            # framing matches: a message we send goes out as text for json, binary otherwise, and decodes with that serializer
            from autobahn.wamp import message
            p.send(message.Event(1, 2, args=[3]))
            p.send(message.Event(1, 3, args=[4]))
            frames, rest = wslib.parse_frames(sx, wslib.concat(t.take()))
            data = [fr for fr in frames if fr.opcode in (1, 2)]
            sx.check(len(data) == 2 and all((fr.opcode == 2) == (not sid.startswith("json")) for fr in data), "text/binary-framing-matches-the-serializer", info=info)
            peer = mk[want]()
            dec = []
            for fr in data:
                dec.extend(peer.unserialize(bytes(fr.payload), fr.opcode == 2))
            sx.check(len(dec) == 2 and dec[0].publication == 2 and dec[1].publication == 3, "peer-with-the-same-subprotocol-decodes-our-messages", info=info)
        sx.cover("ws:selected")
    else:
        sx.check(not resp.startswith(b"HTTP/1.1 101"), "no-shared-subprotocol=>handshake-refused", info=dict(info, resp=resp[:40]))
        sx.check(not attached, "no-session-without-shared-subprotocol", info=info)
        sx.cover("ws:denied")
    return [client, common[:1]]


def ws_client(sx, offered, answer, fw="twisted"):
    """client side: a response naming a subprotocol the client did not request fails the handshake; otherwise the named serializer is used"""
    import base64
    import hashlib
    from autobahn.wamp import serializer as S
    mk = {"wamp.2.json": lambda: S.JsonSerializer(), "wamp.2.json.batched": lambda: S.JsonSerializer(batched=True),
          "wamp.2.msgpack": lambda: S.MsgPackSerializer(), "wamp.2.cbor": lambda: S.CBORSerializer()}
    log = []
    p, feed, t = _ws_factory(fw, False, lambda: RecSession(log), [mk[n]() for n in offered])
    req = bytes(wslib.concat(t.take()))
    sx.check(b"Sec-WebSocket-Protocol: " + ",".join(offered).encode() + b"\r\n" in req, "client-offers-its-list-in-order", info=dict(offered=offered))
    key = base64.b64encode(wslib._FIXED_KEY)
    acc = base64.b64encode(hashlib.sha1(key + b"258EAFA5-E914-47DA-95CA-C5AB0DC85B11").digest())
    hdr = b"" if answer is None else b"Sec-WebSocket-Protocol: " + answer.encode() + b"\r\n"
    try:
        feed(b"HTTP/1.1 101 Switching Protocols\r\nUpgrade: websocket\r\nConnection: Upgrade\r\n" + hdr + b"Sec-WebSocket-Accept: " + acc + b"\r\n\r\n")
    except Exception as e:  # noqa
        sx.fail("exception-escapes-handshake", info=repr(e))
        return ["exc"]
    attached = any(e[0] == "open" for e in log)
    info = dict(offered=offered, answer=answer, fw=fw)
    if answer in offered:
        sx.check(attached and p._serializer.SERIALIZER_ID == answer[len("wamp.2."):], "client-uses-the-serializer-the-server-named", info=info)
        sx.cover("ws:selected")
    else:
        sx.check(not attached, "client-refuses-a-subprotocol-it-did-not-request", info=info)
        sx.check(p.state != p.STATE_OPEN or t.closed is not None, "connection-not-left-open", info=info)
        sx.cover("ws:denied")
    return [attached]


def units(tier):
    U = []
    q = tier == "quick"
    for fw in ("twisted", "asyncio"):
        extra = dict(framework="asyncio") if fw == "asyncio" else {}
        for server in (True, False):
            for sers in (["json"], ["json", "msgpack"]):
                if not server and len(sers) > 1:
                    continue
                for split in ("0", "1", "2", "3", "4", "bytewise"):
                    if split == "0":
                        continue
                    U.append(("hs/%s/%s/%s/%s" % (fw, "S" if server else "C", "+".join(sers), split), "raw_handshake",
                              dict(fw=fw, server=server, sers=sers, split=split), dict(weight=3, **extra)))
            U.append(("sendlimit/%s/%s" % (fw, "S" if server else "C"), "send_limit", dict(fw=fw, server=server), dict(weight=8, **extra)))
            U.append(("recvlimit/%s/%s" % (fw, "S" if server else "C"), "recv_limit", dict(fw=fw, server=server), dict(weight=2, **extra)))
            for ser in ("json", "msgpack"):
                U.append(("stream/%s/%s/%s" % (fw, "S" if server else "C", ser), "stream", dict(fw=fw, server=server, ser=ser, nmsg=3, two_cuts=not q), dict(weight=6, **extra)))
            U.append(("stream-hs/%s/%s" % (fw, "S" if server else "C"), "stream", dict(fw=fw, server=server, ser="json", nmsg=2, two_cuts=not q, with_hs=True), dict(weight=6, **extra)))
    for tk in ("ws-server", "ws-client", "raw-server", "raw-client"):
        for kind in ("wrong-frame-type", "garbage", "protocol-violation", "unknown-type", "session-raises", "none"):
            if kind == "none":
                continue
            U.append(("corrupt/%s/%s" % (tk, kind), "corrupt", dict(transport_kind=tk, kind=kind)))
    sets = [["wamp.2.json"], ["wamp.2.json", "wamp.2.msgpack"], ["wamp.2.json.batched", "wamp.2.json"], ["wamp.2.cbor", "wamp.2.msgpack", "wamp.2.json.batched"]]
    for n in ((1, 2, 3) if q else (1, 2, 3, 4)):
        for ss in sets:
            U.append(("ws/n%d/%s" % (n, "+".join(x[7:] for x in ss)), "ws_negotiation", dict(nclient=n, server_set=ss), dict(weight=n * 2)))
    for offered in (["wamp.2.json"], ["wamp.2.msgpack", "wamp.2.json"], ["wamp.2.json.batched", "wamp.2.json"]):
        for answer in (None, "wamp.2.json", "wamp.2.msgpack", "wamp.2.json.batched", "wamp.2.cbor", "chat"):
            U.append(("wsc/%s/%s" % ("+".join(x[7:] for x in offered), answer), "ws_client", dict(offered=offered, answer=answer)))
    # the same negotiation through the asyncio adapter (own interpreter per unit)
    for ss in sets[1:3] if q else sets:
        U.append(("ws-aio/n2/%s" % "+".join(x[7:] for x in ss), "ws_negotiation", dict(nclient=2, server_set=ss, fw="asyncio"), dict(weight=5, framework="asyncio")))
    for answer in (None, "wamp.2.json", "wamp.2.cbor", "chat"):
        U.append(("wsc-aio/%s" % answer, "ws_client", dict(offered=["wamp.2.msgpack", "wamp.2.json"], answer=answer, fw="asyncio"), dict(weight=3, framework="asyncio")))
    return U
