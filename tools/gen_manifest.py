#!/usr/bin/env python3
"""Regenerate /verif/MANIFEST.json from the property modules present under props/ (cXX.py with PID)
and tools/na.json (property -> reason for not_applicable)."""
import importlib.util, json, os, re, sys
V = os.path.dirname(os.path.dirname(os.path.abspath(__file__)))
props = [json.loads(l) for l in open(os.path.join(V, "properties.jsonl"))]
na = json.load(open(os.path.join(V, "tools", "na.json")))
checks, notapp = [], []
for p in props:
    pid = p["id"]
    f = os.path.join(V, "props", pid.lower() + ".py")
    src = open(f).read() if os.path.exists(f) else ""
    if src and pid not in na.get("force_na", {}):
        def grab(name, default=""):
            m = re.search(r'^%s\s*=\s*"""(.*?)"""' % name, src, re.S | re.M) or re.search(r'^%s\s*=\s*"(.*?)"\s*$' % name, src, re.M)
            return " ".join(m.group(1).split()) if m else default
        level_text = grab("LEVEL_TEXT", "Bounded symbolic model checking of the real source: every obligation is decided by z3 on (path condition AND NOT property) for all values of the symbolic inputs within the stated bounds; counterexamples are replayed on the uninstrumented code before being reported.")
        note = grab("LEVEL_NOTE", "Trusted: CPython semantics of the executed control flow, the SYMX proxy/model layer (validated each run by a concrete differential against the plain import), z3. Bounds, stubs and exclusions are listed in the evidence file and in DESIGN.md section 4.")
        checks.append(dict(
            property_id=pid,
            quick_cmd="./check %s --tier quick" % pid,
            thorough_cmd="./check %s --tier thorough" % pid,
            evidence_file="evidence/%s.json" % pid,
            replay_cmd_template="./check %s --replay {path}" % pid,
            engine="symx",
            level_claimed=dict(category="model_checking", text=level_text, design_ref="DESIGN.md section 4, %s" % pid),
            level_note=note,
            technique=grab("TECHNIQUE", "solver-based: symbolic execution of the instrumented repository source (SYMX) with z3 deciding path AND NOT property; bounded"),
        ))
    else:
        notapp.append(dict(property_id=pid, reason=na.get("reasons", {}).get(pid, "check not built yet (build in progress, see DESIGN.md section 4)")))
m = dict(
    version=1,
    setup_cmd="./setup.sh",
    hooks=dict(guard="CROSSBARIO_AUTOBAHN_PYTHON_VERIF", enable="no hooks needed: all instrumentation happens at import time inside the checker process (AST-rewriting import hook serving /repo/src)",
               baseline_off_cmd="cd /repo && /venv/bin/python -m pytest -ra -q -p no:cacheprovider --timeout=900 --continue-on-collection-errors",
               source_commits=na.get("hook_commits", []), add_only=True),
    engines=[dict(name="symx", path="symx/", serves_properties=[c["property_id"] for c in checks],
                  kind_free_text="own symbolic executor for the repository's Python: AST-instrumenting import hook + z3-backed proxy values + re-execution DFS + replay on the plain import; companion encoders REX (re -> z3 regex) and FP lemmas")],
    checks=checks,
    notes="exit 0 = held within bounds; exit 1 + VIOLATION line = reproduced counterexample; exit 3 = inconclusive/harness error (never reported as success). Known findings: known_findings.json.",
    not_applicable=notapp,
)
json.dump(m, open(os.path.join(V, "MANIFEST.json"), "w"), indent=1)
print("checks:", [c["property_id"] for c in checks], "n/a:", len(notapp))
