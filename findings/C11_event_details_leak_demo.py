"""Real-code demonstration (pre-fix a1e6be79): with two handlers on one subscription id, the first subscribed with
details_arg='details', an EVENT that carries kwargs reaches the second handler with an extra 'details' kwarg.
Run: PYTHONPATH=<tree>/src /venv/bin/python findings/C11_event_details_leak_demo.py  (exit 1 = defect present)"""
import sys
import txaio
txaio.use_twisted()
from autobahn.twisted.wamp import ApplicationSession
from autobahn.wamp import message, role, types
from autobahn.wamp.serializer import JsonSerializer

class T:
    _serializer = JsonSerializer(); transport_details = types.TransportDetails(); is_closed = False
    def __init__(s): s.sent = []
    def send(s, m): s.sent.append(m)
    def isOpen(s): return True
    def close(s): pass

s = ApplicationSession(types.ComponentConfig("realm1")); t = T(); s.onOpen(t)
s.onMessage(message.Welcome(1, {"broker": role.RoleBrokerFeatures(), "dealer": role.RoleDealerFeatures()}))
seen = []
s.subscribe(lambda *a, **k: seen.append(("h1", sorted(k))), "com.t", options=types.SubscribeOptions(details_arg="details"))
s.onMessage(message.Subscribed(t.sent[-1].request, 100))
s.subscribe(lambda *a, **k: seen.append(("h2", sorted(k))), "com.t")
s.onMessage(message.Subscribed(t.sent[-1].request, 100))
s.onMessage(message.Event(100, 1, kwargs={"k": 1}))
print(seen)
sys.exit(0 if seen == [("h1", ["details", "k"]), ("h2", ["k"])] else 1)
