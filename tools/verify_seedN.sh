#!/bin/bash
# tools/verify_seed2.sh <ID> <m1|m2> <m3|m4> : confirm a round-2 sub-agent change (scratch worktree ${WTROOT:-/tmp/wt2}/<ID>) and file it under seeded/<ID>-<m3|m4>
export WTROOT=${WTROOT:-/tmp/wt2} ROUND=${ROUND:-2}
ID=$1; M=$2; N=$3; WT=${WTROOT:-/tmp/wt2}/$ID; OUT=${WTROOT:-/tmp/wt2}/out/$ID; DST=/verif/seeded/$ID-$N
[ -f $OUT/$M.diff ] || { echo "$ID $M missing"; exit 1; }
git -C $WT checkout -q -- . ; git -C $WT status --short | grep -v '\.so$' | head -2
git -C $WT apply $OUT/$M.diff || { echo "$ID $M APPLY-FAIL"; exit 1; }
B=$(python3 /verif/tools/baseline.py $WT | head -1)
PYTHONPATH=$WT/src timeout 120 /venv/bin/python $OUT/${M}_demo.py >$OUT/${M}_changed.log 2>&1; RC1=$?
git -C $WT checkout -q -- .
PYTHONPATH=/repo/src timeout 120 /venv/bin/python $OUT/${M}_demo.py >$OUT/${M}_clean.log 2>&1; RC0=$?
echo "$ID $M->$N | $B | demo changed rc=$RC1 clean rc=$RC0"
if [[ "$B" == *"missing=0"* && $RC1 -ne 0 && $RC0 -eq 0 ]]; then
  mkdir -p $DST; cp $OUT/$M.diff $DST/patch.diff; cp $OUT/${M}_demo.py $DST/demo.py
  python3 - "$ID" "$M" "$N" "$B" "$RC1" "$RC0" <<'PY'
import json,sys
ID,M,N,B,RC1,RC0=sys.argv[1:]
import os
src=json.load(open(os.environ.get("WTROOT","/tmp/wt2")+f"/out/{ID}/{M}_meta.json"))
meta=dict(property=ID, round=int(__import__("os").environ.get("ROUND","2")), summary=src.get("summary"), needs_to_manifest=src.get("needs_to_manifest"), files_changed=src.get("files_changed"),
  origin="independent sub-agent (second round, on the repaired tree) given only the property text and its own scratch worktree",
  confirmed_by_me=dict(baseline=B, demo_on_changed_tree_exit=int(RC1), demo_on_clean_repo_exit=int(RC0)),
  detected_by=None)
json.dump(meta,open(f"/verif/seeded/{ID}-{N}/meta.json","w"),indent=1)
PY
  echo "$ID $N CONFIRMED"
else
  echo "$ID $N NOT-CONFIRMED"
fi
