#!/usr/bin/env python3
"""tools/seed_matrix.py [ID ...] : apply every seeded change to /repo in turn, run its property's quick check, undo it, and
record the verdict in seeded/<ID>-mX/meta.json (detected_by) and seeded/MATRIX.json.  Never run concurrently with anything else."""
import glob, json, os, re, subprocess, sys, time
os.chdir("/verif")
want = set(sys.argv[1:])
matrix = json.load(open("seeded/MATRIX.json")) if os.path.exists("seeded/MATRIX.json") else {}
for d in sorted(glob.glob("seeded/C*-m*")):
    name = os.path.basename(d); pid = name.split("-")[0]
    if want and pid not in want and name not in want:
        continue
    if str(json.load(open(d + "/meta.json")).get("status", "")).startswith("neutralised"):
        matrix[name] = dict(status="neutralised-by-a-fix (not a violation any more)"); continue
    assert subprocess.run(["git", "-C", "/repo", "status", "--porcelain"], capture_output=True, text=True).stdout.strip() == "", "dirty /repo"
    r = subprocess.run(["git", "-C", "/repo", "apply", os.path.abspath(d + "/patch.diff")], capture_output=True, text=True)
    if r.returncode:
        matrix[name] = dict(status="patch-does-not-apply", err=r.stderr[-300:]); print(name, "APPLY-FAIL"); continue
    t0 = time.time()
    try:
        p = subprocess.run(["./check", pid, "--tier", "quick", "--no-evidence"], capture_output=True, text=True, timeout=1800)
        out, rc = p.stdout + p.stderr, p.returncode
    finally:
        subprocess.run(["git", "-C", "/repo", "checkout", "--", "."])
    labels = sorted(set(re.findall(r"label=(\S+)", out)))
    units = sorted(set(re.findall(r"unit=(\S+)", out)))
    nviol = len(re.findall(r"^VIOLATION", out, re.M))
    matrix[name] = dict(check=pid, tier="quick", exit=rc, violations=nviol, labels=labels[:8], units=units[:8], wall_s=round(time.time() - t0, 1))
    meta = json.load(open(d + "/meta.json"))
    meta["detected_by"] = dict(check="./check %s --tier quick" % pid, exit=rc, violation_lines=nviol, labels=labels[:8], units=units[:8]) if rc == 1 and nviol else None
    json.dump(meta, open(d + "/meta.json", "w"), indent=1)
    print(name, "exit", rc, "violations", nviol, labels[:3], "%.0fs" % (time.time() - t0), flush=True)
    json.dump(matrix, open("seeded/MATRIX.json", "w"), indent=1, sort_keys=True)
