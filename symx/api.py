"""Harness-facing API: one handle `sx` used identically in symbolic and concrete (replay) runs."""
import hashlib
import os
import json
import z3
from . import core
from .core import (CTX, MODE_SYM, SymInt, SymBool, SymBytes, SymStr, Unsupported, PathAbort, mkbool,
                   mkbytes, mkstr, mkint, tobool, bits_for, ite)


class Violation(Exception):
    pass


class StopUnit(BaseException):
    pass


class Sx:
    """Input source + oracle sink.

    SYM: int/bool/bytes/str return proxies, `check` queries z3.
    CONC: values come from `self.inputs` (name -> value; default = lower bound / False / zeros),
          `check` evaluates the python truth value and records failures.
    """

    def __init__(self):
        self.reset_unit()

    # ---- unit-level state (accumulated over all paths of a work unit) ---------------------
    def reset_unit(self):
        self.violations = []      # dicts: label, inputs, known (id or None)
        self.known_hits = {}      # known id -> first witness
        self.covers = {}          # label -> count of paths
        self.check_reach = {}     # label -> times reached (twin reachability)
        self.samples = {}         # cover label -> one concrete witness
        self.inputs = {}
        self.conc_failures = []
        self.max_violations = int(os.environ.get("VERIF_MAX_VIOLATIONS", "3"))
        self.known = {}           # id -> True (enabled known-finding classes)
        self.decl = {}

    # ---- inputs --------------------------------------------------------------------------
    def _name(self, name):
        # repeated draws of the same base name get a running index (deterministic per path)
        c = CTX.counters if CTX.active else self._conc_counters
        k = c.get(name, 0)
        c[name] = k + 1
        return name if k == 0 else "%s#%d" % (name, k)

    def begin_conc(self, inputs):
        self.inputs = dict(inputs or {})
        self._conc_counters = {}
        self.conc_failures = []
        self.conc_covers = []
        self.conc_used = {}

    def int(self, name, lo, hi):
        name = self._name(name)
        if CTX.active:
            w = bits_for(lo, hi)
            v = z3.BitVec(name, w)
            if lo == hi:
                return lo
            CTX.solver.add(z3.And(v >= lo, v <= hi))
            if not (lo <= 0 <= hi):
                CTX.model = None      # model completion would assign 0, outside the declared range
            p = SymInt(v, lo, hi)
            CTX.vars[name] = p
            CTX.var_order.append(name)
            return p
        v = self.inputs.get(name, lo)
        v = int(v)
        if not (lo <= v <= hi):
            v = min(max(v, lo), hi)
        self.conc_used[name] = v
        return v

    def bool(self, name):
        name = self._name(name)
        if CTX.active:
            p = SymBool(z3.Bool(name))
            CTX.vars[name] = p
            CTX.var_order.append(name)
            return p
        v = bool(self.inputs.get(name, False))
        self.conc_used[name] = v
        return v

    def bytes(self, name, n):
        return mkbytes([self.int("%s[%d]" % (name, i), 0, 255) for i in range(n)])

    def str(self, name, n, lo=0, hi=0x10FFFF):
        return mkstr([self.int("%s[%d]" % (name, i), lo, hi) for i in range(n)])

    def choice(self, name, n):
        """an index 0..n-1 decided by case split (each value is its own path)"""
        v = self.int(name, 0, n - 1)
        return v.__index__() if isinstance(v, SymInt) else v

    def flag(self, name):
        """a boolean decided by case split"""
        return bool(self.bool(name))

    # ---- logic helpers that work on both plain and symbolic values -------------------------
    @staticmethod
    def And(*a):
        if all(isinstance(x, bool) for x in a):
            return all(a)
        if any(x is False for x in a):
            return False
        return mkbool(z3.And(*[tobool(x) for x in a]))

    @staticmethod
    def Or(*a):
        if all(isinstance(x, bool) for x in a):
            return any(a)
        if any(x is True for x in a):
            return True
        return mkbool(z3.Or(*[tobool(x) for x in a]))

    @staticmethod
    def Not(a):
        if isinstance(a, bool):
            return not a
        return mkbool(z3.Not(tobool(a)))

    @staticmethod
    def Implies(a, b):
        return Sx.Or(Sx.Not(a), b)

    @staticmethod
    def Iff(a, b):
        if isinstance(a, bool) and isinstance(b, bool):
            return a == b
        return mkbool(tobool(a) == tobool(b))

    ite = staticmethod(ite)

    @staticmethod
    def is_sym(x):
        return core.is_sym(x)

    def assume(self, cond):
        """constrain the inputs (no fork): paths where cond cannot hold are abandoned"""
        if isinstance(cond, bool):
            if not cond:
                raise PathAbort()
            return
        if not CTX.active:
            raise Unsupported("assume on symbolic outside exploration")
        CTX.solver.add(tobool(cond))
        CTX.model = None
        if not CTX._check():
            raise PathAbort()

    # ---- outcome bookkeeping ---------------------------------------------------------------
    def cover(self, label):
        if CTX.active:
            self.covers[label] = self.covers.get(label, 0) + 1
            if label not in self.samples:
                self.samples[label] = self.witness()
        else:
            self.conc_covers.append(label)

    def witness(self, model=None):
        """concrete values of all inputs declared on this path"""
        if not CTX.active:
            return dict(self.conc_used)
        if model is None:
            if CTX.model is None:
                if not CTX._check():
                    raise PathAbort()
                CTX.model = CTX.solver.model()
            model = CTX.model
        return {n: CTX.eval_int(model, CTX.vars[n]) for n in CTX.var_order}

    def concrete(self, x, model=None):
        """concrete value of a (possibly symbolic) value under the current path's model"""
        if not core.is_sym(x):
            return x
        if model is None:
            if CTX.model is None:
                if not CTX._check():
                    raise PathAbort()
                CTX.model = CTX.solver.model()
            model = CTX.model
        return CTX.eval_value(model, x)

    # ---- the oracle ------------------------------------------------------------------------
    def check(self, cond, label, known=None, info=None):
        """assert `cond` on the current path.  `known`: list of (known_id, predicate) - witness
        classes listed in known_findings.json; a counterexample inside a listed class is reported
        as KNOWN-FINDING, the query is then re-asked outside all listed classes."""
        self.check_reach[label] = self.check_reach.get(label, 0) + 1
        if not CTX.active:
            ok = bool(cond)
            if not ok:
                self.conc_failures.append(label)
            return ok
        CTX.stats["obligations"] += 1
        if isinstance(cond, bool):
            if cond:
                CTX.stats["discharged"] += 1
                return True
            neg = z3.BoolVal(True)
        else:
            neg = z3.Not(tobool(cond))
        known = [(k, p) for (k, p) in (known or []) if k in self.known]
        s = CTX.solver
        ok = True
        # 1. inside known classes
        for kid, pred in known:
            s.push()
            s.add(neg, tobool(pred))
            if CTX._check():
                m = s.model()
                if kid not in self.known_hits:
                    self.known_hits[kid] = dict(label=label, inputs=self.witness(m), info=info)
            s.pop()
        # 2. outside all known classes
        s.push()
        s.add(neg)
        for kid, pred in known:
            s.add(z3.Not(tobool(pred)))
        if CTX._check():
            m = s.model()
            self.violations.append(dict(label=label, inputs=self.witness(m), info=info))
            ok = False
        s.pop()
        if ok:
            CTX.stats["discharged"] += 1
        else:
            if len(self.violations) >= self.max_violations:
                raise StopUnit()
            # continue this path only where the condition holds
            if not isinstance(cond, bool):
                s.add(tobool(cond))
                CTX.model = None
                if not CTX._check():
                    raise PathAbort()
            # a concretely false condition: recorded; the harness decides how to go on
        return ok

    def fail(self, label, info=None, known=None):
        """unconditional violation on this path (e.g. an unexpected exception type)"""
        return self.check(False, label, known=known, info=info)


sx = Sx()


def stable_hash(obj):
    return hashlib.sha1(json.dumps(obj, sort_keys=True, default=repr).encode()).hexdigest()[:12]
