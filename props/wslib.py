"""Shared WebSocket harness pieces: real Twisted-adapter protocol instances on fake transports and
a virtual clock, plus an independent RFC 6455 frame grammar used as oracle."""
import os
import random as _random
import time as _time

from symx.env import FakeTransport, Trace, NULLLOG, StubRandom, ModProxy, Addr

_FIXED_KEY = bytes(range(16))


def setup_twisted():
    import txaio
    txaio.use_twisted()
    from twisted.internet.task import Clock
    clock = Clock()
    txaio.config.loop = clock
    return clock


class VTime:
    """time module stand-in bound to the virtual clock"""

    def __init__(self, clock, base_ns=1_700_000_000_000_000_000):
        self.clock, self.base = clock, base_ns

    def time_ns(self):
        return self.base + int(self.clock.seconds() * 1_000_000_000)

    def time(self):
        return self.time_ns() / 1e9

    def perf_counter(self):
        return self.clock.seconds()

    def perf_counter_ns(self):
        return int(self.clock.seconds() * 1e9)


class Endpoint:
    """one side of a WebSocket connection: real protocol object + fake transport"""

    def __init__(self, who, proto, transport, factory):
        self.who, self.p, self.t, self.factory = who, proto, transport, factory


def make_endpoint(sx, who, server, trace, clock, opts=None, url="ws://localhost:9000", mixin=None,
                  factory_kwargs=None, extra_attrs=None):
    import autobahn.websocket.protocol as pm
    from autobahn.twisted import websocket as tw

    class Rec:
        log = NULLLOG

        def onConnect(self, r):
            trace.append((who, "connect"))
            return None

        def onOpen(self):
            trace.append((who, "open"))

        def onMessage(self, payload, isBinary):
            trace.append((who, "msg", payload, isBinary))

        def onPing(self, payload):
            trace.append((who, "ping", payload))
            base.onPing(self, payload)

        def onPong(self, payload):
            trace.append((who, "pong", payload))

        def onClose(self, wasClean, code, reason):
            trace.append((who, "close", wasClean, code, reason))

    base = tw.WebSocketServerProtocol if server else tw.WebSocketClientProtocol
    bases = ((mixin,) if mixin else ()) + (Rec, base)
    cls = type("Rec" + ("Server" if server else "Client"), bases, dict(extra_attrs or {}))
    fk = dict(factory_kwargs or {})
    if server:
        f = tw.WebSocketServerFactory(url, reactor=clock, **fk)
    else:
        f = tw.WebSocketClientFactory(url, reactor=clock, **fk)
    f.log = NULLLOG
    f.protocol = cls
    if opts:
        f.setProtocolOptions(**opts)
    p = f.buildProtocol(Addr())
    t = FakeTransport(trace, who)
    return Endpoint(who, p, t, f), f


class FixedRandom:
    """mask keys are not the subject (see C15): a fixed key keeps the wire octets simple"""

    def __init__(self, value=0x1A2B3C4D):
        self.value, self.draws = value, []

    def getrandbits(self, k):
        v = self.value & ((1 << k) - 1)
        self.draws.append(v)
        return v


def patch_env(sx, clock, rnd_prefix="rnd", fixed_rnd=False):
    """route random / os.urandom / time used by websocket/protocol.py through harness inputs and
    the virtual clock.  Returns the StubRandom (its .draws lists the mask keys in draw order)."""
    import autobahn.websocket.protocol as pm
    rnd = FixedRandom() if fixed_rnd else StubRandom(sx, rnd_prefix)
    pm.random = ModProxy(_random, getrandbits=rnd.getrandbits, seed=lambda *a: None)
    pm.os = ModProxy(os, urandom=lambda n: _FIXED_KEY[:n] if n <= 16 else bytes(n))
    pm.time = VTime(clock)
    return rnd


def open_pair(sx, trace=None, server_opts=None, client_opts=None, server_mixin=None, client_mixin=None,
              url="ws://localhost:9000", protocols=None, server_attrs=None, client_attrs=None,
              server_factory_kwargs=None, client_factory_kwargs=None):
    """real client + real server, connected through fake transports, real opening handshake done
    concretely; returns (clock, trace, server_ep, client_ep, rnd)"""
    clock = setup_twisted()
    trace = Trace() if trace is None else trace
    rnd = patch_env(sx, clock)
    sfk = dict(server_factory_kwargs or {})
    cfk = dict(client_factory_kwargs or {})
    if protocols:
        sfk.setdefault("protocols", protocols)
        cfk.setdefault("protocols", protocols)
    s, sf = make_endpoint(sx, "S", True, trace, clock, server_opts, url, server_mixin, sfk, server_attrs)
    c, cf = make_endpoint(sx, "C", False, trace, clock, client_opts, url, client_mixin, cfk, client_attrs)
    s.p.makeConnection(s.t)
    c.p.makeConnection(c.t)
    req = b"".join(c.t.take())
    s.p.dataReceived(req)
    resp = b"".join(s.t.take())
    c.p.dataReceived(resp)
    return clock, trace, s, c, rnd


def open_one(sx, server, opts=None, trace=None, mixin=None, url="ws://localhost:9000", attrs=None, fixed_rnd=False, fw="twisted"):
    """a single real endpoint brought to OPEN by a canned peer handshake (cheaper than a pair).
    fw="asyncio": the asyncio adapter on a virtual-time loop behind the same driving interface (see AioClock / AioProto)"""
    import base64
    import hashlib
    clock = setup_fw(fw)
    trace = Trace() if trace is None else trace
    rnd = patch_env(sx, clock, fixed_rnd=fixed_rnd)
    who = "S" if server else "C"
    ep, f = make_endpoint_fw(fw, sx, who, server, trace, clock, opts, url, mixin, None, attrs)
    ep.p.makeConnection(ep.t)
    if server:
        key = base64.b64encode(_FIXED_KEY)
        req = (b"GET / HTTP/1.1\r\nHost: localhost:9000\r\nUpgrade: websocket\r\nConnection: Upgrade\r\n"
               b"Sec-WebSocket-Key: " + key + b"\r\nSec-WebSocket-Version: 13\r\n\r\n")
        ep.p.dataReceived(req)
    else:
        ep.t.take()
        key = base64.b64encode(_FIXED_KEY)
        acc = base64.b64encode(hashlib.sha1(key + b"258EAFA5-E914-47DA-95CA-C5AB0DC85B11").digest())
        resp = (b"HTTP/1.1 101 Switching Protocols\r\nUpgrade: websocket\r\nConnection: Upgrade\r\n"
                b"Sec-WebSocket-Accept: " + acc + b"\r\n\r\n")
        ep.p.dataReceived(resp)
    ep.t.take()
    del trace[:]
    return clock, trace, ep, rnd


def concat(chunks):
    out = b""
    for c in chunks:
        out = out + c
    return out


def deliver(ep, data, cuts=()):
    """feed `data` to the endpoint's dataReceived in segments split at `cuts` (sorted positions)"""
    prev = 0
    for c in list(cuts) + [len(data)]:
        c = min(max(c, prev), len(data))
        if c > prev:
            ep.p.dataReceived(data[prev:c])
        prev = c


def drain(clock, steps=400, dt=0.001):
    """run pending near-zero-delay calls (queued/chopped writes are drained through call_later with a
    10 microsecond delay); timers further than `dt` in the future are left alone"""
    for _ in range(steps):
        calls = clock.getDelayedCalls()
        if not calls:
            break
        nxt = min(c.getTime() for c in calls)
        if nxt - clock.seconds() > dt:
            break
        clock.advance(max(0.0, nxt - clock.seconds()))


# ------------------------------------------------------------------------------------------
# independent RFC 6455 section 5.2 frame grammar (oracle) - works on concrete or symbolic octets
# ------------------------------------------------------------------------------------------
class Frame:
    __slots__ = ("fin", "rsv", "opcode", "masked", "mask", "length", "payload", "raw_payload", "minimal")

    def __repr__(self):
        return "Frame(fin=%s rsv=%s op=%s masked=%s len=%s)" % (self.fin, self.rsv, self.opcode, self.masked, self.length)


def parse_frames(sx, data):
    """parse a complete octet string into frames; returns (frames, leftover_octets).
    Header bits may be symbolic: each decision forks (so the caller's assertions are per case)."""
    frames = []
    pos, n = 0, len(data)
    while True:
        if n - pos < 2:
            break
        b0, b1 = data[pos], data[pos + 1]
        f = Frame()
        f.fin = bool((b0 & 0x80) != 0)
        f.rsv = (b0 >> 4) & 7
        f.rsv = f.rsv.__index__() if hasattr(f.rsv, "e") else f.rsv
        f.opcode = b0 & 0x0F
        f.opcode = f.opcode.__index__() if hasattr(f.opcode, "e") else f.opcode
        f.masked = bool((b1 & 0x80) != 0)
        l7 = b1 & 0x7F
        l7 = l7.__index__() if hasattr(l7, "e") else l7
        p = pos + 2
        f.minimal = True
        if l7 == 126:
            if n - p < 2:
                break
            ln = (data[p] << 8) | data[p + 1]
            p += 2
            ln = ln.__index__() if hasattr(ln, "e") else ln
            f.minimal = ln >= 126
        elif l7 == 127:
            if n - p < 8:
                break
            ln = 0
            for k in range(8):
                ln = (ln << 8) | data[p + k]
            p += 8
            ln = ln.__index__() if hasattr(ln, "e") else ln
            f.minimal = ln >= 65536
        else:
            ln = l7
        f.length = ln
        if f.masked:
            if n - p < 4:
                break
            f.mask = data[p:p + 4]
            p += 4
        else:
            f.mask = None
        if n - p < ln:
            break
        raw = data[p:p + ln]
        f.raw_payload = raw
        if f.masked:
            f.payload = _mk([raw[i] ^ f.mask[i & 3] for i in range(ln)])
        else:
            f.payload = raw
        frames.append(f)
        pos = p + ln
    return frames, data[pos:]


def _mk(items):
    from symx.core import mkbytes
    return mkbytes(items)


def frames_to_messages(frames):
    """RFC 6455 message assembly from a well-formed frame list. returns (events, wellformed)
    events: ("msg", payload, is_binary) | ("ping", payload) | ("pong", payload) | ("close", payload)"""
    events = []
    ok = True
    cur = None
    for f in frames:
        if f.opcode >= 8:
            if not f.fin or f.length > 125 or f.opcode not in (8, 9, 10):
                ok = False
            events.append(({8: "close", 9: "ping", 10: "pong"}.get(f.opcode, "ctl?"), f.payload))
            continue
        if f.opcode in (1, 2):
            if cur is not None:
                ok = False
            cur = [f.opcode == 2, []]
        elif f.opcode == 0:
            if cur is None:
                ok = False
                cur = [True, []]
        else:
            ok = False
            continue
        cur[1].append(f.payload)
        if f.fin:
            events.append(("msg", concat(cur[1]), cur[0]))
            cur = None
    if cur is not None:
        ok = False
    return events, ok


def build_frame(opcode, payload=b"", fin=True, rsv=0, mask=None, length_form=None):
    """independent frame encoder (harness side) producing peer frames; payload/mask may be symbolic"""
    n = len(payload)
    b0 = (0x80 if fin else 0) | ((rsv & 7) << 4) | (opcode & 0x0F)
    hdr = [b0]
    mbit = 0x80 if mask is not None else 0
    form = length_form
    if form is None:
        form = 7 if n <= 125 else (16 if n <= 0xFFFF else 64)
    if form == 7:
        hdr.append(mbit | n)
    elif form == 16:
        hdr.append(mbit | 126)
        hdr.extend(n.to_bytes(2, "big"))
    else:
        hdr.append(mbit | 127)
        hdr.extend(n.to_bytes(8, "big"))
    out = _mk(hdr)
    if mask is not None:
        out = out + mask
        payload = _mk([payload[i] ^ mask[i & 3] for i in range(n)])
    return out + payload


# ------------------------------------------------------------------------------------------
# asyncio flavour (units using these run in their own interpreter: budget framework="asyncio")
# ------------------------------------------------------------------------------------------
def setup_asyncio():
    """deterministic asyncio loop (callbacks only, no I/O); exceptions reaching the loop's handler are recorded in loop.verif_errors"""
    import asyncio
    import txaio
    txaio.use_asyncio()
    loop = asyncio.new_event_loop()
    asyncio.set_event_loop(loop)
    txaio.config.loop = loop
    loop.verif_errors = []
    loop.set_exception_handler(lambda lp, ctx: lp.verif_errors.append(repr(ctx.get("exception") or ctx.get("message"))))
    return loop


def run_loop(loop, n=6):
    """let scheduled callbacks (future done-callbacks, call_soon) run; timers in the future are left alone"""
    for i in range(400):
        loop.call_soon(loop.stop)
        loop.run_forever()
        if i + 1 >= n and not loop._ready:
            break


def patch_env_aio(sx, fixed_rnd=True):
    import autobahn.websocket.protocol as pm
    rnd = FixedRandom() if fixed_rnd else StubRandom(sx, "rnd")
    pm.random = ModProxy(_random, getrandbits=rnd.getrandbits, seed=lambda *a: None)
    pm.os = ModProxy(os, urandom=lambda n: _FIXED_KEY[:n] if n <= 16 else bytes(n))
    return rnd


def make_endpoint_aio(sx, who, server, trace, loop, opts=None, url="ws://localhost:9000", factory_kwargs=None, extra_attrs=None):
    """real asyncio-adapter protocol instance on a recording transport"""
    from autobahn.asyncio import websocket as aw

    class Rec:
        log = NULLLOG

        def onConnect(self, r):
            trace.append((who, "connect"))
            return None

        def onOpen(self):
            trace.append((who, "open"))

        def onMessage(self, payload, isBinary):
            trace.append((who, "msg", payload, isBinary))

        def onPing(self, payload):
            trace.append((who, "ping", payload))
            base.onPing(self, payload)

        def onPong(self, payload):
            trace.append((who, "pong", payload))

        def onClose(self, wasClean, code, reason):
            trace.append((who, "close", wasClean, code, reason))

    base = aw.WebSocketServerProtocol if server else aw.WebSocketClientProtocol
    cls = type("RecAio" + ("Server" if server else "Client"), (Rec, base), dict(extra_attrs or {}))
    fk = dict(factory_kwargs or {})
    f = (aw.WebSocketServerFactory if server else aw.WebSocketClientFactory)(url, loop=loop, **fk)
    f.log = NULLLOG
    f.protocol = cls
    if opts:
        f.setProtocolOptions(**opts)
    p = f()
    t = FakeTransport(trace, who)
    return Endpoint(who, p, t, f), f


def deliver_aio(ep, loop, data, cuts=(), run_between=True):
    """feed `data` to data_received in segments; the adapter queues them and processes them from a loop callback"""
    prev = 0
    for c in list(cuts) + [len(data)]:
        c = min(max(c, prev), len(data))
        if c > prev:
            ep.p.data_received(data[prev:c])
            if run_between:
                run_loop(loop)
        prev = c
    run_loop(loop)


def open_pair_aio(sx, trace=None, server_opts=None, client_opts=None, protocols=None):
    loop = setup_asyncio()
    trace = Trace() if trace is None else trace
    rnd = patch_env_aio(sx)
    fk = dict(protocols=protocols) if protocols else None
    s, sf = make_endpoint_aio(sx, "S", True, trace, loop, server_opts, factory_kwargs=fk)
    c, cf = make_endpoint_aio(sx, "C", False, trace, loop, client_opts, factory_kwargs=fk)
    s.p.connection_made(s.t)
    c.p.connection_made(c.t)
    run_loop(loop)
    deliver_aio(s, loop, concat(c.t.take()))
    deliver_aio(c, loop, concat(s.t.take()))
    return loop, trace, s, c, rnd


def open_one_aio(sx, server, opts=None, trace=None):
    """a single real asyncio-adapter endpoint brought to OPEN by a canned peer handshake"""
    import base64
    import hashlib
    loop = setup_asyncio()
    trace = Trace() if trace is None else trace
    rnd = patch_env_aio(sx)
    who = "S" if server else "C"
    ep, f = make_endpoint_aio(sx, who, server, trace, loop, opts)
    ep.p.connection_made(ep.t)
    run_loop(loop)
    key = base64.b64encode(_FIXED_KEY)
    if server:
        hs = (b"GET / HTTP/1.1\r\nHost: localhost:9000\r\nUpgrade: websocket\r\nConnection: Upgrade\r\n"
              b"Sec-WebSocket-Key: " + key + b"\r\nSec-WebSocket-Version: 13\r\n\r\n")
    else:
        ep.t.take()
        acc = base64.b64encode(hashlib.sha1(key + b"258EAFA5-E914-47DA-95CA-C5AB0DC85B11").digest())
        hs = (b"HTTP/1.1 101 Switching Protocols\r\nUpgrade: websocket\r\nConnection: Upgrade\r\n"
              b"Sec-WebSocket-Accept: " + acc + b"\r\n\r\n")
    ep.p.data_received(hs)
    run_loop(loop)
    ep.t.take()
    del trace[:]
    return loop, trace, ep, rnd


# ------------------------------------------------------------------------------------------
# one driving interface for both frameworks: harnesses written against the Twisted names
# (clock.seconds/advance/getDelayedCalls, p.makeConnection/dataReceived/connectionLost) drive the
# asyncio adapter through these shims, on an event loop whose time() is a harness variable
# ------------------------------------------------------------------------------------------
class _AioCall:
    def __init__(self, h):
        self.h = h

    def getTime(self):
        return self.h._when


class AioClock:
    """virtual time for a real asyncio loop: loop.time() is replaced; advance() moves it and lets due timers and ready callbacks run"""

    def __init__(self, loop):
        self.loop, self.now = loop, 0.0
        loop.time = self.seconds

    def seconds(self):
        return self.now

    def advance(self, dt):
        self.now += dt
        run_loop(self.loop, 2)

    def getDelayedCalls(self):
        return [_AioCall(h) for h in self.loop._scheduled if not h._cancelled]


class AioProto:
    """asyncio-adapter protocol behind the Twisted method names used by the harnesses; ready callbacks are run after each event
    (the adapter processes received segments from a loop callback)"""

    def __init__(self, p, loop):
        self.__dict__["_p"] = p
        self.__dict__["_loop"] = loop

    def makeConnection(self, t):
        self._p.connection_made(t)
        run_loop(self._loop, 2)

    def dataReceived(self, data):
        self._p.data_received(data)
        run_loop(self._loop, 2)

    def connectionLost(self, exc=None):
        self._p.connection_lost(exc)
        run_loop(self._loop, 2)

    def __getattr__(self, n):
        return getattr(self.__dict__["_p"], n)

    def __setattr__(self, n, v):
        setattr(self.__dict__["_p"], n, v)


def setup_fw(fw):
    if fw == "twisted":
        return setup_twisted()
    return AioClock(setup_asyncio())


def make_endpoint_fw(fw, sx, who, server, trace, clock, opts=None, url="ws://localhost:9000", mixin=None, factory_kwargs=None, extra_attrs=None):
    if fw == "twisted":
        return make_endpoint(sx, who, server, trace, clock, opts, url, mixin, factory_kwargs, extra_attrs)
    assert mixin is None
    ep, f = make_endpoint_aio(sx, who, server, trace, clock.loop, opts, url, factory_kwargs, extra_attrs)
    ep.p = AioProto(ep.p, clock.loop)
    return ep, f


def lost(ep, fw="twisted", clean=True):
    """the TCP connection is gone (peer drop, or our own loseConnection/abort taking effect)"""
    if fw == "twisted":
        from twisted.python.failure import Failure
        from twisted.internet.error import ConnectionDone, ConnectionLost
        ep.p.connectionLost(Failure(ConnectionDone() if clean else ConnectionLost()))
    else:
        ep.p.connectionLost(None if clean else ConnectionResetError("peer reset"))      # asyncio: None = EOF / our own close()
