"""C01  WebSocket messages arrive intact, exactly once and in order."""
from . import wslib

PID = "C01"
FUNCTIONS = [
    "autobahn.websocket.protocol: WebSocketProtocol.sendMessage (auto/explicit fragmentation loop), sendFrame, sendMessageFrame",
    "autobahn.websocket.protocol: beginMessage / beginMessageFrame / sendMessageFrameData / endMessage (streaming API)",
    "autobahn.websocket.protocol: PreparedMessage.__init__, WebSocketFactory.prepareMessage, sendPreparedMessage",
    "autobahn.websocket.protocol: sendData / _trigger / _send (queued, chopped and synced writes drained by the virtual clock)",
    "autobahn.websocket.protocol: _dataReceived / consumeData / processData / onFrameBegin / onFrameData / onFrameEnd / onMessage*",
    "autobahn.websocket.protocol: WebSocketServerProtocol.processHandshake+succeedHandshake / WebSocketClientProtocol.processHandshake (hand-over of octets following the HTTP header)",
    "autobahn.websocket.xormasker: XorMaskerSimple / XorMaskerShifted1 / create_xor_masker",
    "autobahn.twisted.websocket: WebSocketAdapterProtocol.dataReceived / connectionMade",
    "autobahn.asyncio.websocket: WebSocketAdapterProtocol.connection_made / data_received / _consume (receive queue), factories (aio/ units)",
]
STUBS = ["transport -> recording object (both directions)", "reactor / txaio.call_later -> twisted Clock", "random.getrandbits -> fresh 32-bit variable per frame",
         "os.urandom (handshake nonce) -> fixed octets", "loggers -> empty bodies"]
ASSUMPTIONS = [
    "Twisted adapter for the bulk of the units; the asyncio adapter (receive queue processed from an event-loop callback) is driven by the aio/ units on a hand-stepped loop: 2 messages x 2-cut segmentations, queue piled up or drained between segments",
    "compression off except for the z/ units (compressed / do-not-compress messages interleaved over the codec model of C12); sendFrame's deliberately-invalid fuzzing parameters (mask=, payload_len=, rsv=) are not used",
    "payload content symbolic up to the stated octet bound, longer payloads are concrete fill around symbolic octets; lengths, API mix, fragment sizes, chop sizes, cut positions enumerated within the bounds (fragment size additionally as a free integer)",
    "oracle 1 = independent RFC 6455 frame grammar over the written octets; oracle 2 = peer application's onMessage trace",
]
BOUNDS = {
    "quick": "2 messages per run, all ordered pairs of 6 send APIs, payload 0..3 free octets; fragmentSize/autoFragmentSize a free integer 1..n+1; chop sizes 1..3; every single cut of the wire stream for short streams; boundary lengths {125,126,127,128,129} client->server and {65535,65536} server->client with 2 free octets + fill; hand-over after the HTTP header at every cut position of the last 6 header octets; control frames (ping/pong) between the fragments of a message through the frame and streaming APIs (ctl/ units)",
    "thorough": "3 messages per run over all API triples, payload 0..6 free octets, every 2-cut split for streams <= 24 octets, boundary lengths both directions, chop sizes 1..5",
}
EXPECT_COVERS = ["ctl-between-fragments", "deflate-mix", "aio", "api:message", "api:message-frag", "api:autofrag", "api:frame-frag", "api:streaming", "api:prepared", "sync-queue", "chopped",
                 "handover:S", "handover:C", "len:126", "len:65536"]
BUDGET = {"quick": dict(wall_s=300, max_paths=20000, diff_samples=3), "thorough": dict(wall_s=2400, max_paths=300000)}

APIS = ["message", "message-frag", "autofrag", "frame-frag", "streaming", "prepared"]
# data message with control frames on the wire between its fragments (RFC 6455 5.4 allows it; an automatic ping does it to any streamed message)
CTL_APIS = ["frame-frag+ctl", "streaming+ctl"]


def _send(sx, ep, api, pl, idx, sync, chop):
    p = ep.p
    n = len(pl)
    if api == "message":
        p.sendMessage(pl, isBinary=True, sync=sync)
    elif api == "message-frag":
        if n > 1000:
            # long boundary payloads: fragment sizes around the length-encoding boundaries (a free size would mean n frames)
            menu = [125, 126, 127, 32768, n - 1, n, n + 1]
            fs = menu[sx.choice("fragsize%d" % idx, len(menu))]
        else:
            fs = sx.int("fragsize%d" % idx, 1, n + 1)
        p.sendMessage(pl, isBinary=False if idx % 2 else True, fragmentSize=fs, sync=sync)
        return not (idx % 2)
    elif api == "autofrag":
        p.autoFragmentSize = sx.int("autofrag%d" % idx, 1, n + 1)
        p.sendMessage(pl, isBinary=True, sync=sync)
        p.autoFragmentSize = 0
    elif api == "frame-frag":
        h = n // 2
        p.sendFrame(opcode=2, payload=pl[:h], fin=False, chopsize=chop, sync=sync)
        p.sendFrame(opcode=0, payload=pl[h:], fin=True, chopsize=chop, sync=sync)
    elif api == "streaming":
        p.beginMessage(isBinary=True)
        h = n // 2
        p.beginMessageFrame(h)
        if h:
            p.sendMessageFrameData(pl[:1], sync=sync)
            if h > 1:
                p.sendMessageFrameData(pl[1:h])
        else:
            p.sendMessageFrameData(b"")
        p.beginMessageFrame(n - h)
        p.sendMessageFrameData(pl[h:])
        p.endMessage()
    elif api == "prepared":
        p.sendPreparedMessage(ep.factory.prepareMessage(pl, isBinary=True))
    elif api == "frame-frag+ctl":
        h = n // 2
        p.sendFrame(opcode=2, payload=pl[:h], fin=False, sync=sync)
        p.sendPing(b"k")
        p.sendFrame(opcode=0, payload=pl[h:h + 1], fin=False)
        p.sendPong(b"u")
        p.sendFrame(opcode=0, payload=pl[h + 1:], fin=True)
    elif api == "streaming+ctl":
        p.beginMessage(isBinary=True)
        h = n // 2
        p.sendMessageFrame(pl[:h])
        p.sendPong(b"u")
        p.sendMessageFrame(pl[h:])
        p.sendPing(b"k")
        p.endMessage()
    return True


def _check_wire(sx, frames, sender_is_server, label_info, ctl=False):
    events, ok = wslib.frames_to_messages(frames)
    sx.check(ok, "wire:well-formed-frame-sequence", info=label_info)
    for f in frames:
        sx.check(f.rsv == 0, "wire:rsv-zero", info=label_info)
        sx.check(f.minimal, "wire:minimal-length-form", info=label_info)
        sx.check(f.masked == (not sender_is_server), "wire:mask-bit-per-role", info=label_info)
        sx.check(f.opcode in ((0, 1, 2, 9, 10) if ctl else (0, 1, 2)), "wire:only-data-frames", info=label_info)
    return [e for e in events if e[0] == "msg"]


def roundtrip(sx, sender_server, apis, n, syncs, chop, cutmode):
    clock, trace, s, c, rnd = wslib.open_pair(sx)
    snd, rcv = (s, c) if sender_server else (c, s)
    s.t.take()
    c.t.take()
    del trace[:]
    payloads, kinds = [], []
    for i, api in enumerate(apis):
        pl = sx.bytes("m%d" % i, n)
        if api in ("message-frag",) and (i % 2):
            # text message: keep it ASCII so that UTF-8 validation is not the subject here
            for b in pl:
                sx.assume(b < 0x80) if sx.is_sym(b) else None
        isbin = _send(sx, snd, api, pl, i, syncs[i], chop)
        payloads.append(pl)
        kinds.append(isbin)
        sx.cover("api:" + api)
        if syncs[i]:
            sx.cover("sync-queue")
        if chop and api == "frame-frag":
            sx.cover("chopped")
    wslib.drain(clock, steps=400)
    chunks = snd.t.take()
    wire = wslib.concat(chunks)
    info = dict(apis=apis, n=n, syncs=syncs, chop=chop, sender="S" if sender_server else "C")
    frames, rest = wslib.parse_frames(sx, wire)
    sx.check(len(rest) == 0, "wire:whole-frames-only", info=info)
    ctl = any(a in CTL_APIS for a in apis)
    wmsgs = _check_wire(sx, frames, sender_server, info, ctl)
    sx.check(len(wmsgs) == len(payloads), "wire:one-message-per-send", info=info)
    for (k, got, isbin), want, wb in zip(wmsgs, payloads, kinds):
        sx.check(got == want, "wire:payload-in-order", info=info)
        sx.check(isbin == wb, "wire:type", info=info)
    # ---- deliver to the real peer under a segmentation of the stream
    L = len(wire)
    if cutmode == "chunks":
        pos = 0
        for ch in chunks:
            rcv.p.dataReceived(ch)
    elif cutmode == "whole":
        rcv.p.dataReceived(wire)
    elif cutmode == "symcut":
        c1 = sx.choice("cut", L + 1)
        wslib.deliver(rcv, wire, (c1,))
    elif cutmode == "bytewise":
        for i in range(L):
            rcv.p.dataReceived(wire[i:i + 1])
    got = trace.of(rcv.who, "msg")
    sx.check(len(got) == len(payloads), "rx:exactly-once", info=info)
    for g, want, wb in zip(got, payloads, kinds):
        sx.check(g[2] == want, "rx:payload-identical-in-order", info=info)
        sx.check(g[3] == wb, "rx:same-type", info=info)
    sx.check(rcv.t.closed is None and rcv.p.state == rcv.p.STATE_OPEN, "rx:connection-stays-open", info=info)
    sx.check(len(trace.of(snd.who, "msg")) == 0, "nothing-delivered-to-sender", info=info)
    if ctl:
        nctl = sum(1 for a in apis if a in CTL_APIS)
        sx.check(len(trace.of(rcv.who, "ping")) == nctl and len(trace.of(rcv.who, "pong")) == nctl, "rx:control-frames-between-fragments-delivered-once", info=info)
        sx.cover("ctl-between-fragments")
    return [len(frames), len(got)]


def aio_roundtrip(sx, sender_server, apis, n, queued):
    """the asyncio adapter: segments handed to data_received() are queued and processed from a loop callback - the same messages,
    once, in order, whether the loop runs between segments or all segments pile up in the queue first"""
    loop, trace, s, c, rnd = wslib.open_pair_aio(sx)
    snd, rcv = (s, c) if sender_server else (c, s)
    info = dict(apis=apis, n=n, sender="S" if sender_server else "C", queued=queued)
    sx.check(s.p.state == s.p.STATE_OPEN and c.p.state == c.p.STATE_OPEN, "aio:handshake-completes", info=info)
    s.t.take()
    c.t.take()
    del trace[:]
    payloads, kinds = [], []
    for i, api in enumerate(apis):
        pl = sx.bytes("m%d" % i, n)
        isbin = _send(sx, snd, api, pl, i, False, None)
        payloads.append(pl)
        kinds.append(True if isbin is None else isbin)
    wslib.run_loop(loop)
    wire = wslib.concat(snd.t.take())
    frames, rest = wslib.parse_frames(sx, wire)
    sx.check(len(rest) == 0, "wire:whole-frames-only", info=info)
    ctl = any(a in CTL_APIS for a in apis)
    wmsgs = _check_wire(sx, frames, sender_server, info, ctl)
    sx.check(len(wmsgs) == len(payloads), "wire:one-message-per-send", info=info)
    L = len(wire)
    c1 = sx.choice("cut1", L + 1)
    c2 = c1 + sx.choice("gap", 4)
    wslib.deliver_aio(rcv, loop, wire, (c1, c2), run_between=not queued)
    got = trace.of(rcv.who, "msg")
    sx.check(len(got) == len(payloads), "rx:exactly-once", info=info)
    for g, want in zip(got, payloads):
        sx.check(g[2] == want, "rx:payload-identical-in-order", info=info)
    sx.check(rcv.t.closed is None and rcv.p.state == rcv.p.STATE_OPEN, "rx:connection-stays-open", info=info)
    sx.check(len(loop.verif_errors) == 0, "aio:no-exception-reaches-the-event-loop", info=dict(info, errors=loop.verif_errors[:2]))
    sx.cover("aio")
    return [len(frames), len(got)]


def compressed_mix(sx, setting, api):
    """with a compression extension negotiated, compressed and uncompressed (doNotCompress) messages interleave: each arrives intact, once,
    in order (the negotiation itself and the codec contract are C12's subject; the harness is shared)"""
    from . import c12
    r = c12.pair(sx, setting, api, 3)
    sx.cover("deflate-mix")
    return r


def boundary(sx, sender_server, api, L):
    """payload lengths at the 7/16/64-bit length-encoding boundaries: 2 free octets + literal fill"""
    clock, trace, s, c, rnd = wslib.open_pair(sx)
    snd, rcv = (s, c) if sender_server else (c, s)
    s.t.take(); c.t.take(); del trace[:]
    pl = sx.bytes("a", 1) + b"x" * (L - 2) + sx.bytes("z", 1) if L >= 2 else sx.bytes("a", L)
    _send(sx, snd, api, pl, 0, False, None)
    wslib.drain(clock, steps=50)
    wire = wslib.concat(snd.t.take())
    frames, rest = wslib.parse_frames(sx, wire)
    info = dict(L=L, api=api, sender="S" if sender_server else "C")
    sx.check(len(rest) == 0, "wire:whole-frames-only", info=info)
    wmsgs = _check_wire(sx, frames, sender_server, info)
    sx.check(len(wmsgs) == 1, "wire:one-message", info=info)
    if api in ("message", "prepared"):
        sx.check(len(frames) == 1 and frames[0].length == L, "wire:single-frame-with-exact-length", info=info)
        form = 7 if L <= 125 else (16 if L <= 0xFFFF else 64)
        hdr = 2 + {7: 0, 16: 2, 64: 8}[form] + (0 if sender_server else 4)
        sx.check(len(wire) == hdr + L, "wire:header-size-for-length-form", info=info)
    if wmsgs:
        sx.check(wmsgs[0][1] == pl, "wire:payload", info=info)
    half = len(wire) // 2
    for cut in ((), (1,), (3, half)):
        pass
    wslib.deliver(rcv, wire, (2, half))
    got = trace.of(rcv.who, "msg")
    sx.check(len(got) == 1, "rx:exactly-once", info=info)
    if got:
        sx.check(got[0][2] == pl, "rx:payload-identical", info=info)
    sx.cover("len:%d" % L)
    return [len(frames), len(got)]


def handover(sx, server, n, cut):
    """octets that follow the HTTP handshake in the same read(s) are handed to the frame decoder"""
    import base64
    import hashlib
    clock = wslib.setup_twisted()
    from symx.env import Trace
    trace = Trace()
    rnd = wslib.patch_env(sx, clock)
    ep, f = wslib.make_endpoint(sx, "S" if server else "C", server, trace, clock)
    ep.p.makeConnection(ep.t)
    payload = sx.bytes("p", n)
    key = base64.b64encode(wslib._FIXED_KEY)
    if server:
        hs = (b"GET / HTTP/1.1\r\nHost: localhost:9000\r\nUpgrade: websocket\r\nConnection: Upgrade\r\n"
              b"Sec-WebSocket-Key: " + key + b"\r\nSec-WebSocket-Version: 13\r\n\r\n")
        frame = wslib.build_frame(2, payload, mask=sx.bytes("k", 4))
    else:
        ep.t.take()
        acc = base64.b64encode(hashlib.sha1(key + b"258EAFA5-E914-47DA-95CA-C5AB0DC85B11").digest())
        hs = (b"HTTP/1.1 101 Switching Protocols\r\nUpgrade: websocket\r\nConnection: Upgrade\r\n"
              b"Sec-WebSocket-Accept: " + acc + b"\r\n\r\n")
        frame = wslib.build_frame(2, payload)
    frame2 = wslib.build_frame(1, b"hi", mask=b"\x01\x02\x03\x04" if server else None)
    data = hs + frame + frame2
    cutpos = len(hs) + cut          # cut relative to the end of the HTTP header (may be negative)
    wslib.deliver(ep, data, (max(0, cutpos),))
    who = ep.who
    msgs = trace.of(who, "msg")
    info = dict(server=server, n=n, cut=cut)
    sx.check(len(trace.of(who, "open")) == 1, "handshake-completed", info=info)
    sx.check(len(msgs) == 2, "both-messages-after-handshake-delivered-once", info=info)
    if len(msgs) == 2:
        sx.check(msgs[0][2] == payload, "first-message-intact", info=info)
        sx.check(msgs[1][2] == b"hi" and msgs[1][3] is False, "second-message-intact", info=info)
        opens = [i for i, e in enumerate(trace) if e[0] == who and e[1] == "open"]
        first = [i for i, e in enumerate(trace) if e[0] == who and e[1] == "msg"]
        sx.check(opens[0] < first[0], "onOpen-before-first-message", info=info)
    sx.cover("handover:" + who)
    return [len(msgs)]


def units(tier):
    U = []
    q = tier == "quick"
    ns = [0, 1, 3] if q else [0, 1, 2, 4, 6]
    # API pairs
    pairs = [(a, b) for a in APIS for b in APIS]
    for sender_server in (True, False):
        for (a, b) in pairs:
            for n in ns:
                if q and n == 3 and (APIS.index(a) + APIS.index(b)) % 2:
                    continue
                for syncs in ((False, False), (True, False), (True, True)):
                    if q and syncs == (True, True) and a != "message":
                        continue
                    cm = "symcut" if n <= 1 or not q else "bytewise"
                    U.append(("rt/%s/%s+%s/n%d/s%d%d" % ("S" if sender_server else "C", a, b, n, syncs[0], syncs[1]), "roundtrip",
                              dict(sender_server=sender_server, apis=[a, b], n=n, syncs=list(syncs), chop=None, cutmode=cm), dict(weight=n + 1)))
        # chopped writes (frame API) followed by / preceded by ordinary writes
        for chop in ((1, 2, 3) if q else (1, 2, 3, 4, 5)):
            for apis in (["frame-frag", "message"], ["message", "frame-frag"], ["frame-frag", "frame-frag"], ["frame-frag", "prepared"]):
                U.append(("chop/%s/%s/c%d" % ("S" if sender_server else "C", "+".join(apis), chop), "roundtrip",
                          dict(sender_server=sender_server, apis=apis, n=3, syncs=[False, False], chop=chop, cutmode="chunks")))
        # control frames on the wire between the fragments of a message
        for apis in (["frame-frag+ctl", "message"], ["streaming+ctl", "message-frag"], ["message", "streaming+ctl"], ["streaming+ctl", "frame-frag+ctl"]):
            for n in ((3,) if q else (2, 3, 5)):
                for cm in ("symcut", "bytewise"):
                    U.append(("ctl/%s/%s/n%d/%s" % ("S" if sender_server else "C", "+".join(apis), n, cm), "roundtrip",
                              dict(sender_server=sender_server, apis=apis, n=n, syncs=[False, False], chop=None, cutmode=cm), dict(weight=3)))
        # three messages: sync, sync, plain (queue ordering)
        for apis in (["message", "message", "message"], ["message", "prepared", "streaming"], ["streaming", "message", "frame-frag"]):
            for syncs in ([True, True, False], [True, False, False], [False, True, False]):
                U.append(("q3/%s/%s/%s" % ("S" if sender_server else "C", "+".join(apis), "".join(str(int(x)) for x in syncs)), "roundtrip",
                          dict(sender_server=sender_server, apis=apis, n=2, syncs=syncs, chop=None, cutmode="whole")))
    # asyncio adapter (receive queue + loop callback): own interpreter per unit
    for sender_server in (True, False):
        for apis in ((["message", "message"], ["message-frag", "message"]) if q else (["message", "message"], ["message-frag", "message"], ["streaming", "prepared"], ["message", "frame-frag"])):
            for queued in (False, True):
                U.append(("aio/%s/%s/%s" % ("S" if sender_server else "C", "+".join(apis), "queued" if queued else "stepped"), "aio_roundtrip",
                          dict(sender_server=sender_server, apis=apis, n=2, queued=queued), dict(weight=6, framework="asyncio")))
    for setting in (0, 2):
        for api in ("mixed", "donotcompress", "message"):
            U.append(("z/%d/%s" % (setting, api), "compressed_mix", dict(setting=setting, api=api), dict(weight=4)))
    # length-encoding boundaries
    for L in ([125, 126, 127, 128, 129] if q else [124, 125, 126, 127, 128, 129, 130, 255, 256]):
        for api in (("message", "prepared", "streaming") if q else APIS):
            U.append(("len/C/%s/%d" % (api, L), "boundary", dict(sender_server=False, api=api, L=L), dict(weight=3)))
            U.append(("len/S/%s/%d" % (api, L), "boundary", dict(sender_server=True, api=api, L=L), dict(weight=3)))
    for L in (65535, 65536):
        for api in (("message", "prepared") if q else ("message", "prepared", "streaming", "message-frag")):
            U.append(("len/S/%s/%d" % (api, L), "boundary", dict(sender_server=True, api=api, L=L), dict(weight=9)))
        if not q:
            U.append(("len/C/message/%d" % L, "boundary", dict(sender_server=False, api="message", L=L), dict(weight=10)))
    # hand-over after the HTTP header
    for server in (True, False):
        for n in ((0, 2) if q else (0, 1, 2, 5)):
            for cut in ((-3, -1, 0, 1, 2, 3, 7, 9) if q else range(-6, 16)):
                U.append(("handover/%s/n%d/cut%d" % ("S" if server else "C", n, cut), "handover", dict(server=server, n=n, cut=cut)))
    return U
