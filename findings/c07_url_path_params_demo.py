"""C07 genuine defect: parse_url() used urllib's urlparse(), which splits ';parameters' off the last path segment, and dropped them: a client
created for ws://host/app;v=2 requested 'GET /app' - not the resource of its URL.
Run: /venv/bin/python findings/c07_url_path_params_demo.py [tree]"""
import sys
sys.path.insert(0, (sys.argv[1] if len(sys.argv) > 1 else "/repo") + "/src")
from autobahn.websocket.util import parse_url
rc = 0
for url, want in (("ws://host/app;v=2", "/app;v=2"), ("ws://host/a/b;x=1;y=2?q=1", "/a/b;x=1;y=2?q=1"), ("ws://host/a;p/b", "/a;p/b")):
    got = parse_url(url)[3]
    print("%-32s resource=%-22s %s" % (url, got, "ok" if got == want else "DEFECT (want %s)" % want))
    rc |= got != want
sys.exit(rc)
