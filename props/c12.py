"""C12  Per-message compression is lossless and negotiated soundly."""
from . import wslib
from .zmodel import ZModel

PID = "C12"
FUNCTIONS = [
    "autobahn.websocket.compress_deflate: PerMessageDeflateOffer.__init__ / parse / get_extension_string",
    "autobahn.websocket.compress_deflate: PerMessageDeflateOfferAccept.__init__ / get_extension_string, PerMessageDeflateResponse.parse / __init__, PerMessageDeflateResponseAccept.__init__",
    "autobahn.websocket.compress_deflate: PerMessageDeflate.create_from_offer_accept / create_from_response_accept / __init__ / start_compress_message / compress_message_data / end_compress_message / start_decompress_message / decompress_message_data / end_decompress_message",
    "autobahn.websocket.protocol: _parseExtensionsHeader, extension handling in WebSocketServerProtocol.succeedHandshake and WebSocketClientProtocol._actuallyStartHandshake / processHandshake",
    "autobahn.websocket.protocol: RSV1 handling in sendMessage / beginMessage / beginMessageFrame / sendMessageFrame / endMessage / sendPreparedMessage and processData / onFrameBegin / onFrameData / onFrameEnd",
]
STUBS = ["zlib.compressobj / decompressobj -> reference stateful codec model (props/zmodel.py): worst case of context take-over (message k of a context decodes only after 0..k-1 of the same context), window sizes checked, sync-flush tail 00 00 ff ff, max_length semantics",
         "transport -> recording objects for a real client and a real server; reactor -> twisted Clock; frame mask keys fixed", "loggers -> empty bodies"]
ASSUMPTIONS = [
    "losslessness of the real zlib/bz2/brotli/snappy streams (C libraries, input-length-dependent loops) is outside solver reach: decided here is everything around them (which (de)compressor is used, reset vs reuse, window sizes per direction, tail strip/re-append, RSV1 rules, negotiation); permessage-bzip2 is driven end to end over a one-stream-per-message codec model (6 negotiation settings) and permessage-brotli over a contract model measured on brotli 1.2.0 (7 context-takeover settings incl. local overrides); the snappy classes (python-snappy is not installed) are not driven",
    "window-size and memory-level values are case-split over {0, 8, 9, 12, 15, 16} resp. {None, 1, 9, 10} (in- and out-of-range), booleans free",
]
BOUNDS = {"quick": "offer x accept lattice: 2^3 x 6 offer parameters x 2 x 6 x 3 x 7 x 4 accept parameters, response x response-accept lattice likewise; end-to-end pairs: 12 negotiation settings x 3 messages per direction x {whole, fragmented, streaming, prepared, do-not-compress} with free payload octets; 14 malformed extension responses; compressed control frame / RSV1 on continuation; permessage-brotli over a contract model in 7 context-takeover settings x 4 send APIs; control frames between compressed fragments (api streaming+ctl)",
          "thorough": "all window sizes 8..16, 4 messages per direction"}
EXPECT_COVERS = ["pair:ctl-between-fragments", "pair:bzip2", "pair:brotli", "lattice:accept-ok", "lattice:accept-raises", "lattice:offer-raises", "pair:delivered", "pair:uncompressed", "client:refuses", "rx:rsv-violation"]
BUDGET = {"quick": dict(wall_s=300, max_paths=60000, diff_samples=3), "thorough": dict(wall_s=2400, max_paths=600000)}

WB = [0, 8, 9, 12, 15, 16]
OKWB = [9, 10, 11, 12, 13, 14, 15]


def _hdr(proto, s):
    return proto._parseExtensionsHeader(s)


def lattice(sx, o_acc_nct, o_acc_mwb, o_req_nct, o_req_mwb):
    """server side of the lattice: whatever the application's accept policy answers, either the constructor refuses it or both
    ends end up with PMCE objects under which every message decodes (codec model), and the answer only contains offered things"""
    import autobahn.websocket.compress_deflate as cd
    import autobahn.websocket.protocol as pm
    proto = pm.WebSocketProtocol.__new__(pm.WebSocketProtocol)
    z = ZModel()
    cd.zlib = z
    info = dict(offer=(o_acc_nct, o_acc_mwb, o_req_nct, o_req_mwb))
    try:
        offer = cd.PerMessageDeflateOffer(o_acc_nct, o_acc_mwb, o_req_nct, o_req_mwb)
    except Exception:
        sx.check(o_req_mwb != 0 and o_req_mwb not in OKWB, "offer-constructor-refuses-only-illegal-window-bits", info=info)
        sx.cover("lattice:offer-raises")
        return ["offer-raises"]
    sx.check(o_req_mwb == 0 or o_req_mwb in OKWB, "illegal-offer-window-bits-refused", info=info)
    # the offer survives its own wire form
    ext = _hdr(proto, offer.get_extension_string())
    sx.check(len(ext) == 1 and ext[0][0] == "permessage-deflate", "offer-string-parses", info=info)
    o2 = cd.PerMessageDeflateOffer.parse(ext[0][1])
    sx.check((o2.request_no_context_takeover, o2.request_max_window_bits, o2.accept_max_window_bits) == (offer.request_no_context_takeover, offer.request_max_window_bits, offer.accept_max_window_bits)
             and (o2.accept_no_context_takeover or not offer.accept_no_context_takeover), "offer-round-trips-through-its-extension-string", info=info)
    # the application's answer: free
    a_req_nct = sx.flag("a_req_nct")
    a_req_mwb = WB[sx.choice("a_req_mwb", len(WB))]
    a_nct = [None, False, True][sx.choice("a_nct", 3)]
    a_wb = ([None] + WB)[sx.choice("a_wb", len(WB) + 1)]
    a_mem = [None, 1, 9, 10][sx.choice("a_mem", 4)]
    info = dict(info, accept=(a_req_nct, a_req_mwb, a_nct, a_wb, a_mem))
    must_raise = ((a_req_nct and not o2.accept_no_context_takeover) or (a_req_mwb != 0 and a_req_mwb not in OKWB) or (a_req_mwb != 0 and not o2.accept_max_window_bits)
                  or (a_nct is False and o2.request_no_context_takeover) or (a_wb is not None and a_wb not in OKWB)
                  or (a_wb is not None and o2.request_max_window_bits != 0 and a_wb > o2.request_max_window_bits) or (a_mem is not None and not (1 <= a_mem <= 9)))
    try:
        acc = cd.PerMessageDeflateOfferAccept(o2, a_req_nct, a_req_mwb, a_nct, a_wb, a_mem)
        raised = False
    except Exception:
        raised = True
    sx.check(raised == bool(must_raise), "accept-compatible-with-offer-iff-constructor-accepts", info=info)
    if raised:
        sx.cover("lattice:accept-raises")
        return ["accept-raises"]
    sx.cover("lattice:accept-ok")
    # the answer on the wire contains only things compatible with the offer
    rstr = acc.get_extension_string()
    rext = _hdr(proto, rstr)
    params = rext[0][1]
    sx.check(("client_no_context_takeover" not in params) or o2.accept_no_context_takeover, "answer:client_no_context_takeover-only-if-offered", info=info)
    sx.check(("client_max_window_bits" not in params) or o2.accept_max_window_bits, "answer:client_max_window_bits-only-if-offered", info=info)
    sx.check(("server_no_context_takeover" in params) == bool(o2.request_no_context_takeover), "answer:server_no_context_takeover-iff-requested", info=info)
    if o2.request_max_window_bits:
        sx.check(params.get("server_max_window_bits") == [str(o2.request_max_window_bits)], "answer:server_max_window_bits-as-requested", info=info)
    srv = cd.PerMessageDeflate.create_from_offer_accept(True, acc)
    # client side: parse the answer, accept with free overrides
    resp = cd.PerMessageDeflateResponse.parse(params)
    c_nct = [None, False, True][sx.choice("c_nct", 3)]
    c_wb = ([None] + WB)[sx.choice("c_wb", len(WB) + 1)]
    c_must_raise = (c_nct is False and resp.client_no_context_takeover) or (c_wb is not None and c_wb not in OKWB) or \
        (c_wb is not None and resp.client_max_window_bits != 0 and c_wb > resp.client_max_window_bits)
    try:
        racc = cd.PerMessageDeflateResponseAccept(resp, c_nct, c_wb, None)
        craised = False
    except Exception:
        craised = True
    sx.check(craised == bool(c_must_raise), "response-accept-compatible-iff-constructor-accepts", info=dict(info, client=(c_nct, c_wb)))
    if craised:
        sx.cover("lattice:accept-raises")
        return ["response-accept-raises"]
    cli = cd.PerMessageDeflate.create_from_response_accept(False, racc)
    # both directions: 3 messages each must decode at the other end (model codec: windows + context generations)
    ok = True
    why = None
    try:
        for snd, rcv in ((cli, srv), (srv, cli)):
            for k in range(3):
                data = bytes([65 + k]) * (k + 1)
                snd.start_compress_message()
                c = snd.compress_message_data(data) + snd.end_compress_message()
                rcv.start_decompress_message()
                d = rcv.decompress_message_data(c[:2]) + rcv.decompress_message_data(c[2:])
                rcv.end_decompress_message()
                if d != data:
                    ok, why = False, "altered %r -> %r" % (data, d)
    except Exception as e:  # noqa
        ok, why = False, repr(e)
    sx.check(ok, "after-negotiation-every-message-decodes-in-both-directions", info=dict(info, client=(c_nct, c_wb), why=why))
    # effective parameters per direction are consistent: decoder window >= encoder window
    return ["ok"]


def _policy(kind):
    """application accept policies for the pair harness"""
    import autobahn.websocket.compress_deflate as cd

    def server_accept(offers):
        for o in offers:
            if isinstance(o, cd.PerMessageDeflateOffer):
                if kind["srv_nct"] is None and kind["srv_wb"] is None:
                    return cd.PerMessageDeflateOfferAccept(o, request_no_context_takeover=kind["req_cli_nct"] and o.accept_no_context_takeover,
                                                           request_max_window_bits=kind["req_cli_wb"] if o.accept_max_window_bits else 0)
                return cd.PerMessageDeflateOfferAccept(o, request_no_context_takeover=kind["req_cli_nct"] and o.accept_no_context_takeover,
                                                       request_max_window_bits=kind["req_cli_wb"] if o.accept_max_window_bits else 0,
                                                       no_context_takeover=kind["srv_nct"], window_bits=kind["srv_wb"])
        return None

    def client_accept(resp):
        if isinstance(resp, cd.PerMessageDeflateResponse):
            return cd.PerMessageDeflateResponseAccept(resp, no_context_takeover=kind["cli_nct"], window_bits=kind["cli_wb"])
        return None
    return server_accept, client_accept


SETTINGS = [
    dict(o=(True, True, False, 0), req_cli_nct=False, req_cli_wb=0, srv_nct=None, srv_wb=None, cli_nct=None, cli_wb=None),
    dict(o=(True, True, True, 0), req_cli_nct=False, req_cli_wb=0, srv_nct=None, srv_wb=None, cli_nct=None, cli_wb=None),
    dict(o=(True, True, False, 0), req_cli_nct=True, req_cli_wb=0, srv_nct=None, srv_wb=None, cli_nct=None, cli_wb=None),
    dict(o=(True, True, True, 9), req_cli_nct=True, req_cli_wb=9, srv_nct=None, srv_wb=None, cli_nct=None, cli_wb=None),
    dict(o=(True, True, False, 12), req_cli_nct=False, req_cli_wb=10, srv_nct=None, srv_wb=None, cli_nct=None, cli_wb=None),
    dict(o=(True, True, False, 0), req_cli_nct=False, req_cli_wb=0, srv_nct=True, srv_wb=9, cli_nct=None, cli_wb=None),
    dict(o=(True, True, False, 0), req_cli_nct=False, req_cli_wb=0, srv_nct=None, srv_wb=None, cli_nct=True, cli_wb=9),
    dict(o=(False, False, False, 0), req_cli_nct=True, req_cli_wb=9, srv_nct=None, srv_wb=None, cli_nct=None, cli_wb=None),
    dict(o=(True, False, True, 15), req_cli_nct=True, req_cli_wb=0, srv_nct=True, srv_wb=15, cli_nct=True, cli_wb=15),
    dict(o=(True, True, False, 0), req_cli_nct=False, req_cli_wb=15, srv_nct=False, srv_wb=None, cli_nct=False, cli_wb=None),
    dict(o=(False, True, True, 10), req_cli_nct=False, req_cli_wb=11, srv_nct=None, srv_wb=10, cli_nct=None, cli_wb=11),
    dict(o=(True, True, True, 0), req_cli_nct=True, req_cli_wb=0, srv_nct=True, srv_wb=None, cli_nct=True, cli_wb=None),
]


def pair(sx, setting, api, nmsg):
    """real client + real server negotiate permessage-deflate in the real handshake, then talk: everything arrives identical"""
    import autobahn.websocket.compress_deflate as cd
    z = ZModel()
    cd.zlib = z
    kind = SETTINGS[setting]
    sa, ca = _policy(kind)
    offers = [cd.PerMessageDeflateOffer(*kind["o"])]
    clock, trace, s, c, rnd = wslib.open_pair(sx, server_opts=dict(perMessageCompressionAccept=sa),
                                              client_opts=dict(perMessageCompressionOffers=offers, perMessageCompressionAccept=ca))
    info = dict(setting=setting, api=api)
    sx.check(s.p.state == s.p.STATE_OPEN and c.p.state == c.p.STATE_OPEN, "handshake-with-compression-completes", info=info)
    sx.check(s.p._perMessageCompress is not None and c.p._perMessageCompress is not None, "compression-negotiated-on-both-ends", info=info)
    if s.p._perMessageCompress is None or c.p._perMessageCompress is None:
        return ["no-pmce"]
    s.t.take(); c.t.take(); del trace[:]
    for snd, rcv in ((c, s), (s, c)):
        sent = []
        for k in range(nmsg):
            pl = sx.bytes("m%s%d" % (snd.who, k), 2) + bytes([97 + k]) * k
            if api == "empty" and k != 1:
                pl = b""
            p = snd.p
            dnc = (api == "donotcompress") or (api in ("mixed", "streaming-mixed") and k == 1)
            if api in ("message", "donotcompress", "mixed", "empty"):
                p.sendMessage(pl, isBinary=True, doNotCompress=dnc)
            elif api == "fragmented":
                p.sendMessage(pl, isBinary=True, fragmentSize=3)
            elif api in ("streaming", "streaming-mixed"):
                p.beginMessage(isBinary=True, doNotCompress=dnc)
                p.sendMessageFrame(pl[:1])
                p.sendMessageFrame(pl[1:])
                p.endMessage()
            elif api == "streaming+ctl":
                # control frames on the wire between the fragments of a compressed message (an automatic ping does that to any streamed message)
                p.beginMessage(isBinary=True)
                p.sendMessageFrame(pl[:1])
                p.sendPing(b"k")
                p.sendMessageFrame(pl[1:2])
                p.sendPong(b"u")
                p.sendMessageFrame(pl[2:])
                p.endMessage()
                sx.cover("pair:ctl-between-fragments")
            elif api == "prepared":
                p.sendPreparedMessage(snd.factory.prepareMessage(pl, isBinary=True))
            sent.append((pl, dnc))
        wslib.drain(clock)
        wire = wslib.concat(snd.t.take())
        frames, rest = wslib.parse_frames(sx, wire)
        sx.check(len(rest) == 0, "whole-frames", info=info)
        # RSV1 only on the first frame of a compressed message; never on continuation or control frames
        first = True
        mi = 0
        for f in frames:
            if f.opcode >= 8:
                sx.check(f.rsv == 0, "control-frames-never-compressed", info=info)
                continue
            if f.opcode != 0:
                want = 0 if sent[mi][1] else 4
                sx.check(f.rsv == want, "rsv1-on-first-frame-iff-message-is-compressed", info=dict(info, msg=mi, rsv=f.rsv))
                if sent[mi][1]:
                    sx.cover("pair:uncompressed")
            else:
                sx.check(f.rsv == 0, "no-rsv1-on-continuation-frames", info=dict(info, msg=mi))
            if f.fin:
                mi += 1
        # deliver under a split
        half = len(wire) // 2
        try:
            wslib.deliver(rcv, wire, (3, half))
        except Exception as e:  # noqa
            sx.fail("exception-escapes-receiver", info=dict(info, exc=repr(e)))
            return ["exc"]
        got = trace.of(rcv.who, "msg")
        sx.check(len(got) == nmsg, "every-message-delivered-once", info=dict(info, got=len(got)))
        for g, (pl, dnc) in zip(got, sent):
            sx.check(g[2] == pl, "message-identical-after-compression", info=info)
        sx.check(rcv.t.closed is None, "connection-stays-open", info=info)
        del trace[:]
    sx.cover("pair:delivered")
    return [setting, api]


class BZModel:
    """stands in for the `bz2` module inside compress_bzip2.py: one stream per compressor object; a compressor cannot be used after
    flush(); a decompressor raises EOFError when fed after the end of its stream and OSError on foreign data"""

    def __init__(self):
        self.levels = []          # compress levels of the compressor objects created, in order

    def BZ2Compressor(self, level=9):
        if not isinstance(level, int) or not (1 <= level <= 9):
            raise ValueError("compresslevel must be between 1 and 9")
        self.levels.append(level)
        return _BZC(level)

    def BZ2Decompressor(self):
        return _BZD()


class _BZC:
    def __init__(self, level):
        self.level, self.buf, self.done = level, b"", False

    def compress(self, data):
        if self.done:
            raise ValueError("Compressor has been flushed")
        self.buf = self.buf + data
        return b""

    def flush(self):
        if self.done:
            raise ValueError("Repeated call to flush()")
        self.done = True
        return bytes([0x42, 0x5A, self.level, len(self.buf)]) + self.buf + b"\x17\x72"


class _BZD:
    def __init__(self):
        self.pending, self.left, self.state = b"", 0, "hdr"

    def decompress(self, data):
        if self.state == "eof":
            raise EOFError("End of stream already reached")
        buf = self.pending + data
        out = b""
        pos = 0
        while pos < len(buf) and self.state != "eof":
            if self.state == "hdr":
                if len(buf) - pos < 4:
                    break
                if buf[pos] != 0x42 or buf[pos + 1] != 0x5A:
                    raise OSError("Invalid data stream")
                self.left = buf[pos + 3]
                pos += 4
                self.state = "body"
            elif self.state == "body":
                take = min(self.left, len(buf) - pos)
                out = out + buf[pos:pos + take]
                pos += take
                self.left -= take
                if self.left == 0:
                    self.state = "t0"
            elif self.state == "t0":
                if buf[pos] != 0x17:
                    raise OSError("Invalid data stream")
                pos += 1
                self.state = "t1"
            elif self.state == "t1":
                if buf[pos] != 0x72:
                    raise OSError("Invalid data stream")
                pos += 1
                self.state = "eof"
        self.pending = buf[pos:] if self.state != "eof" else b""
        return out


BZ_SETTINGS = [
    # offer(accept_max_compress_level, request_max_compress_level), server accept(request_max, compress_level), client accept(compress_level)
    dict(o=(True, 0), s=(0, None), c=None),
    dict(o=(True, 5), s=(3, None), c=None),
    dict(o=(False, 9), s=(0, 4), c=7),
    dict(o=(True, 2), s=(6, 1), c=6),
    dict(o=(False, 0), s=(0, 9), c=1),
    dict(o=(True, 1), s=(1, None), c=1),
]


def pair_bzip2(sx, setting, api, nmsg):
    """permessage-bzip2 negotiated by a real client and a real server: levels respect what each side asked for, every message arrives identical"""
    import autobahn.websocket.compress_bzip2 as cb
    bz = BZModel()
    cb.bz2 = bz
    kind = BZ_SETTINGS[setting]

    def server_accept(offers):
        for o in offers:
            if isinstance(o, cb.PerMessageBzip2Offer):
                return cb.PerMessageBzip2OfferAccept(o, request_max_compress_level=kind["s"][0] if o.accept_max_compress_level else 0, compress_level=kind["s"][1])
        return None

    def client_accept(resp):
        if isinstance(resp, cb.PerMessageBzip2Response):
            return cb.PerMessageBzip2ResponseAccept(resp, compress_level=kind["c"])
        return None
    offers = [cb.PerMessageBzip2Offer(*kind["o"])]
    clock, trace, s, c, rnd = wslib.open_pair(sx, server_opts=dict(perMessageCompressionAccept=server_accept),
                                              client_opts=dict(perMessageCompressionOffers=offers, perMessageCompressionAccept=client_accept))
    info = dict(setting=setting, api=api, ext="bzip2")
    ok = s.p.state == s.p.STATE_OPEN and c.p.state == c.p.STATE_OPEN and s.p._perMessageCompress is not None and c.p._perMessageCompress is not None
    sx.check(ok, "handshake-with-compression-completes", info=info)
    if not ok:
        return ["no-pmce"]
    sx.check(type(s.p._perMessageCompress).__name__ == "PerMessageBzip2" and type(c.p._perMessageCompress).__name__ == "PerMessageBzip2", "negotiated-extension-is-the-offered-one", info=info)
    s.t.take(); c.t.take(); del trace[:]
    # what each side may use at most: the other side's request (0 = no request)
    srv_cap = kind["o"][1] or 9
    cli_cap = (kind["s"][0] if kind["o"][0] else 0) or 9
    for snd, rcv, cap in ((c, s, cli_cap), (s, c, srv_cap)):
        n0 = len(bz.levels)
        sent = []
        for k in range(nmsg):
            pl = sx.bytes("m%s%d" % (snd.who, k), 2) + bytes([97 + k]) * k
            if api == "empty" and k != 1:
                pl = b""
            if api in ("message", "empty"):
                snd.p.sendMessage(pl, isBinary=True)
            elif api == "fragmented":
                snd.p.sendMessage(pl, isBinary=True, fragmentSize=3)
            elif api == "streaming":
                snd.p.beginMessage(isBinary=True)
                snd.p.sendMessageFrame(pl[:1])
                snd.p.sendMessageFrame(pl[1:])
                snd.p.endMessage()
            sent.append(pl)
        wslib.drain(clock)
        for lv in bz.levels[n0:]:
            sx.check(lv <= cap, "compress-level<=maximum-requested-by-the-peer", info=dict(info, level=lv, cap=cap, sender=snd.who))
        wire = wslib.concat(snd.t.take())
        try:
            wslib.deliver(rcv, wire, (3, len(wire) // 2))
        except Exception as e:  # noqa
            sx.fail("exception-escapes-receiver", info=dict(info, exc=repr(e)))
            return ["exc"]
        got = trace.of(rcv.who, "msg")
        sx.check(len(got) == nmsg, "every-message-delivered-once", info=dict(info, got=len(got)))
        for g, pl in zip(got, sent):
            sx.check(g[2] == pl, "message-identical-after-compression", info=info)
        sx.check(rcv.t.closed is None, "connection-stays-open", info=info)
        del trace[:]
    sx.cover("pair:bzip2")
    return [setting, api]


class BRError(Exception):
    pass


class BRModel:
    """stands in for the `brotli` module inside compress_brotli.py, by its measured contract (brotli 1.2.0): Compressor.process() buffers,
    flush() emits what was buffered and keeps the encoder usable, finish() ends the stream - any use afterwards raises brotli.error
    ("encoder failed"); Decompressor.process() raises brotli.error ("decoder failed") for octets after the end of its stream or foreign
    data, is_finished() tells whether the stream has ended"""
    error = BRError

    def __init__(self):
        self.created = [0, 0]

    def Compressor(self, *a, **k):
        self.created[0] += 1
        return _BRC()

    def Decompressor(self):
        self.created[1] += 1
        return _BRD()


class _BRC:
    def __init__(self):
        self.buf, self.done = b"", False

    def process(self, data):
        if self.done:
            raise BRError("brotli: encoder failed")
        self.buf = self.buf + data
        return b""

    def _chunk(self):
        out = bytes([0xB0, len(self.buf)]) + self.buf
        self.buf = b""
        return out

    def flush(self):
        if self.done:
            raise BRError("brotli: encoder failed")
        return self._chunk()

    def finish(self):
        if self.done:
            raise BRError("brotli: encoder failed")
        self.done = True
        return self._chunk() + b"\xbf"


class _BRD:
    def __init__(self):
        self.pending, self.left, self.state = b"", 0, "hdr"

    def is_finished(self):
        return self.state == "eof"

    def process(self, data):
        if len(data) == 0:
            return b""
        if self.state == "eof":
            raise BRError("brotli: decoder failed")
        buf = self.pending + data
        out = b""
        pos = 0
        while pos < len(buf):
            if self.state == "eof":
                raise BRError("brotli: decoder failed")
            if self.state == "hdr":
                if buf[pos] == 0xBF:
                    pos += 1
                    self.state = "eof"
                    continue
                if buf[pos] != 0xB0:
                    raise BRError("brotli: decoder failed")
                if len(buf) - pos < 2:
                    break
                self.left = buf[pos + 1]
                pos += 2
                self.state = "body" if self.left else "hdr"
            else:
                take = min(self.left, len(buf) - pos)
                out = out + buf[pos:pos + take]
                pos += take
                self.left -= take
                if self.left == 0:
                    self.state = "hdr"
        self.pending = buf[pos:]
        return out


BR_SETTINGS = [
    # offer(accept_no_context_takeover, request_no_context_takeover), server accept(request_no_context_takeover, no_context_takeover), client accept(no_context_takeover)
    dict(o=(True, False), s=(False, None), c=None),        # context takeover both ways (the defaults)
    dict(o=(True, True), s=(True, None), c=None),          # no context takeover both ways
    dict(o=(True, False), s=(True, None), c=None),         # only client->server without takeover
    dict(o=(True, True), s=(False, None), c=None),         # only server->client without takeover
    dict(o=(True, False), s=(False, True), c=None),        # server resets its own compressor without having been asked (local override)
    dict(o=(True, False), s=(False, None), c=True),        # client resets its own compressor without having been asked (local override)
    dict(o=(False, False), s=(False, None), c=None),
]


def pair_brotli(sx, setting, api, nmsg):
    """permessage-brotli negotiated by a real client and a real server: every message arrives identical, in every context-takeover mode"""
    import autobahn.websocket.compress_brotli as cb
    br = BRModel()
    cb.brotli = br
    kind = BR_SETTINGS[setting]

    def server_accept(offers):
        for o in offers:
            if isinstance(o, cb.PerMessageBrotliOffer):
                return cb.PerMessageBrotliOfferAccept(o, request_no_context_takeover=kind["s"][0] and o.accept_no_context_takeover, no_context_takeover=kind["s"][1])
        return None

    def client_accept(resp):
        if isinstance(resp, cb.PerMessageBrotliResponse):
            return cb.PerMessageBrotliResponseAccept(resp, no_context_takeover=kind["c"])
        return None
    offers = [cb.PerMessageBrotliOffer(*kind["o"])]
    clock, trace, s, c, rnd = wslib.open_pair(sx, server_opts=dict(perMessageCompressionAccept=server_accept),
                                              client_opts=dict(perMessageCompressionOffers=offers, perMessageCompressionAccept=client_accept))
    info = dict(setting=setting, api=api, ext="brotli")
    ok = s.p.state == s.p.STATE_OPEN and c.p.state == c.p.STATE_OPEN and s.p._perMessageCompress is not None and c.p._perMessageCompress is not None
    sx.check(ok, "handshake-with-compression-completes", info=info)
    if not ok:
        return ["no-pmce"]
    sx.check(type(s.p._perMessageCompress).__name__ == "PerMessageBrotli" and type(c.p._perMessageCompress).__name__ == "PerMessageBrotli", "negotiated-extension-is-the-offered-one", info=info)
    # what was requested of a side is what that side does
    if kind["o"][1]:
        sx.check(s.p._perMessageCompress.server_no_context_takeover is True, "server-honours-requested-no-context-takeover", info=info)
    if kind["s"][0] and kind["o"][0]:
        sx.check(c.p._perMessageCompress.client_no_context_takeover is True, "client-honours-requested-no-context-takeover", info=info)
    s.t.take(); c.t.take(); del trace[:]
    for snd, rcv in ((c, s), (s, c)):
        sent = []
        try:
            for k in range(nmsg):
                pl = sx.bytes("m%s%d" % (snd.who, k), 2) + bytes([97 + k]) * k
                if api == "empty" and k != 1:
                    pl = b""
                if api in ("message", "empty"):
                    snd.p.sendMessage(pl, isBinary=True)
                elif api == "fragmented":
                    snd.p.sendMessage(pl, isBinary=True, fragmentSize=3)
                elif api == "streaming":
                    snd.p.beginMessage(isBinary=True)
                    snd.p.sendMessageFrame(pl[:1])
                    snd.p.sendMessageFrame(pl[1:])
                    snd.p.endMessage()
                sent.append(pl)
        except Exception as e:  # noqa
            sx.fail("exception-escapes-sender", info=dict(info, exc=repr(e), sender=snd.who, message=len(sent)))
            return ["exc"]
        wslib.drain(clock)
        wire = wslib.concat(snd.t.take())
        try:
            wslib.deliver(rcv, wire, (3, len(wire) // 2))
        except Exception as e:  # noqa
            sx.fail("exception-escapes-receiver", info=dict(info, exc=repr(e), sender=snd.who))
            return ["exc"]
        got = trace.of(rcv.who, "msg")
        sx.check(len(got) == nmsg, "every-message-delivered-once", info=dict(info, got=len(got), sender=snd.who))
        for g, pl in zip(got, sent):
            sx.check(g[2] == pl, "message-identical-after-compression", info=dict(info, sender=snd.who))
        sx.check(rcv.t.closed is None, "connection-stays-open", info=dict(info, sender=snd.who))
        del trace[:]
    sx.cover("pair:brotli")
    return [setting, api]


def refused_send(sx, setting):
    """a send refused for exceeding maxMessagePayloadSize must not desynchronise the compression context for later messages"""
    import autobahn.websocket.compress_deflate as cd
    from autobahn.exception import PayloadExceededError
    z = ZModel()
    cd.zlib = z
    kind = SETTINGS[setting]
    sa, ca = _policy(kind)
    clock, trace, s, c, rnd = wslib.open_pair(sx, server_opts=dict(perMessageCompressionAccept=sa),
                                              client_opts=dict(perMessageCompressionOffers=[cd.PerMessageDeflateOffer(*kind["o"])], perMessageCompressionAccept=ca))
    s.t.take(); c.t.take(); del trace[:]
    for snd, rcv in ((c, s), (s, c)):
        snd.p.sendMessage(b"first", isBinary=True)
        snd.p.maxMessagePayloadSize = 20
        refused = False
        try:
            snd.p.sendMessage(b"x" * 40, isBinary=True)
        except PayloadExceededError:
            refused = True
        snd.p.maxMessagePayloadSize = 0
        snd.p.sendMessage(b"after", isBinary=True)
        wslib.drain(clock)
        wire = wslib.concat(snd.t.take())
        try:
            rcv.p.dataReceived(wire)
        except Exception as e:  # noqa
            sx.fail("later-message-undecodable-after-a-refused-send", info=dict(setting=setting, exc=repr(e)))
            return ["exc"]
        got = [e[2] for e in trace.of(rcv.who, "msg")]
        sx.check(refused, "over-limit-send-refused", info=dict(setting=setting))
        sx.check(got == [b"first", b"after"], "messages-around-a-refused-send-arrive-intact", info=dict(setting=setting, got=repr(got)))
        del trace[:]
    sx.cover("pair:delivered")
    return [setting]


BAD_RESPONSES = [
    ("unknown-extension", "x-unknown-ext"),
    ("two-pmce", "permessage-deflate, permessage-deflate"),
    ("unknown-param", "permessage-deflate; frobnicate"),
    ("dup-param", "permessage-deflate; server_no_context_takeover; server_no_context_takeover"),
    ("wbits-8", "permessage-deflate; server_max_window_bits=8"),
    ("wbits-16", "permessage-deflate; client_max_window_bits=16"),
    ("wbits-text", "permessage-deflate; server_max_window_bits=abc"),
    ("nct-valued", "permessage-deflate; client_no_context_takeover=1"),
    ("client-wbits-novalue", "permessage-deflate; client_max_window_bits"),
    ("ok-plus-unknown", "permessage-deflate, x-unknown-ext"),
    ("policy-none", "permessage-deflate"),
    ("not-offered", "permessage-deflate"),
]


def client_refuses(sx, case):
    """the client fails the handshake on unsound extension responses"""
    import base64
    import hashlib
    import autobahn.websocket.compress_deflate as cd
    from symx.env import Trace
    cd.zlib = ZModel()
    name, hdr = BAD_RESPONSES[case]
    clock = wslib.setup_twisted()
    wslib.patch_env(sx, clock, fixed_rnd=True)
    trace = Trace()
    opts = dict(perMessageCompressionOffers=[] if name == "not-offered" else [cd.PerMessageDeflateOffer()],
                perMessageCompressionAccept=(lambda r: None) if name == "policy-none" else (lambda r: cd.PerMessageDeflateResponseAccept(r)))
    ep, f = wslib.make_endpoint(sx, "C", False, trace, clock, opts)
    ep.p.makeConnection(ep.t)
    ep.t.take()
    key = base64.b64encode(wslib._FIXED_KEY)
    acc = base64.b64encode(hashlib.sha1(key + b"258EAFA5-E914-47DA-95CA-C5AB0DC85B11").digest())
    try:
        ep.p.dataReceived(b"HTTP/1.1 101 Switching Protocols\r\nUpgrade: websocket\r\nConnection: Upgrade\r\nSec-WebSocket-Extensions: " + hdr.encode() +
                          b"\r\nSec-WebSocket-Accept: " + acc + b"\r\n\r\n")
    except Exception as e:  # noqa
        sx.fail("exception-escapes-client-handshake", info=dict(case=name, exc=repr(e)))
        return ["exc"]
    opened = len(trace.of("C", "open")) > 0
    if name == "not-offered":
        # a compression extension the client never offered but whose accept policy approves: not among the refusal cases of the property
        pass
    else:
        sx.check(not opened and ep.p.state != ep.p.STATE_OPEN, "unsound-extension-response-fails-the-handshake", info=dict(case=name, hdr=hdr))
        sx.check(ep.t.closed is not None, "connection-dropped", info=dict(case=name))
    sx.cover("client:refuses")
    return [name, opened]


def rx_rules(sx, which):
    """with compression negotiated: compressed control frames and RSV1 on continuation frames are protocol violations"""
    import autobahn.websocket.compress_deflate as cd
    z = ZModel()
    cd.zlib = z
    sa, ca = _policy(SETTINGS[0])
    clock, trace, s, c, rnd = wslib.open_pair(sx, server_opts=dict(perMessageCompressionAccept=sa, failByDrop=False),
                                              client_opts=dict(perMessageCompressionOffers=[cd.PerMessageDeflateOffer()], perMessageCompressionAccept=ca))
    s.t.take(); del trace[:]
    mask = b"\x01\x02\x03\x04"
    comp = z.compressobj(-1, 8, -15, 8)
    comp.compress(b"hello")
    body = comp.flush(z.Z_SYNC_FLUSH)[:-4]
    if which == "compressed-ping":
        data = wslib.build_frame(9, b"x", rsv=4, mask=mask)
    elif which == "rsv1-continuation":
        data = wslib.build_frame(2, body[:3], fin=False, rsv=4, mask=mask) + wslib.build_frame(0, body[3:], fin=True, rsv=4, mask=mask)
    elif which == "rsv2":
        data = wslib.build_frame(2, body, rsv=2, mask=mask)
    else:   # good
        data = wslib.build_frame(2, body[:3], fin=False, rsv=4, mask=mask) + wslib.build_frame(0, body[3:], fin=True, rsv=0, mask=mask)
    s.p.dataReceived(data)
    wslib.drain(clock)
    frames, rest = wslib.parse_frames(sx, wslib.concat(s.t.take()))
    closes = [f for f in frames if f.opcode == 8]
    msgs = trace.of("S", "msg")
    if which == "good":
        sx.check(len(msgs) == 1 and msgs[0][2] == b"hello" and not closes, "well-formed-compressed-fragmented-message-delivered", info=which)
    else:
        sx.check(len(closes) == 1 and len(msgs) == 0, "rsv-violation=>failed-and-nothing-delivered", info=which)
        if closes and closes[0].length >= 2:
            sx.check(((closes[0].payload[0] << 8) | closes[0].payload[1]) == 1002, "close-status-1002", info=which)
        sx.cover("rx:rsv-violation")
    return [which]


def units(tier):
    U = []
    q = tier == "quick"
    wbs = WB if q else [0, 8, 9, 10, 11, 12, 13, 14, 15, 16]
    for a in (True, False):
        for b in (True, False):
            for c in (True, False):
                for w in wbs:
                    U.append(("lattice/%d%d%d/%d" % (a, b, c, w), "lattice", dict(o_acc_nct=a, o_acc_mwb=b, o_req_nct=c, o_req_mwb=w), dict(weight=5)))
    for si in range(len(SETTINGS)):
        for api in ("message", "fragmented", "streaming", "streaming-mixed", "streaming+ctl", "prepared", "donotcompress", "mixed", "empty"):
            U.append(("pair/%d/%s" % (si, api), "pair", dict(setting=si, api=api, nmsg=3 if q else 4), dict(weight=3)))
    for si in range(len(BZ_SETTINGS)):
        for api in ("message", "fragmented", "streaming", "empty"):
            U.append(("bzip2/%d/%s" % (si, api), "pair_bzip2", dict(setting=si, api=api, nmsg=2 if q else 3), dict(weight=3)))
    for si in range(len(BR_SETTINGS)):
        for api in ("message", "fragmented", "streaming", "empty"):
            U.append(("brotli/%d/%s" % (si, api), "pair_brotli", dict(setting=si, api=api, nmsg=2 if q else 3), dict(weight=3)))
    for si in (0, 1, 2, 3):
        U.append(("refusedsend/%d" % si, "refused_send", dict(setting=si)))
    for i in range(len(BAD_RESPONSES)):
        U.append(("clientrefuses/%s" % BAD_RESPONSES[i][0], "client_refuses", dict(case=i)))
    for w in ("compressed-ping", "rsv1-continuation", "rsv2", "good"):
        U.append(("rx/" + w, "rx_rules", dict(which=w)))
    return U
