"""C02  Incoming byte streams are judged exactly as RFC 6455 prescribes."""
from . import wslib
from .c09 import ref_step, S0, REJ

PID = "C02"
FUNCTIONS = [
    "autobahn.websocket.protocol: WebSocketProtocol._dataReceived / consumeData / processData (header validation cascade)",
    "autobahn.websocket.protocol: onFrameBegin / onFrameData / onFrameEnd / processControlFrame / onCloseFrame",
    "autobahn.websocket.protocol: onMessageBegin / onMessageFrameBegin / onMessageFrameData / onMessageFrameEnd / onMessageEnd",
    "autobahn.websocket.protocol: onPing -> sendPong -> sendFrame; _protocol_violation / _invalid_payload / _fail_connection / sendCloseFrame / dropConnection / _connectionLost",
    "autobahn.websocket.utf8validator: Utf8Validator.validate (pure Python) as used for text messages and close reasons",
    "autobahn.websocket.xormasker: create_xor_masker / XorMaskerSimple.process (unmasking)",
    "autobahn.twisted.websocket: WebSocketAdapterProtocol.dataReceived / connectionLost / _closeConnection",
    "autobahn.util: encode_truncate (close reason)",
]
STUBS = ["transport -> recording object", "reactor/txaio.call_later -> twisted Clock", "random.getrandbits -> fresh 32-bit variable",
         "negotiated compression -> identity PMCE stub object (only the RSV1 rules are exercised here, see C12)", "loggers -> empty bodies"]
ASSUMPTIONS = [
    "opening handshake executed concretely (real code) to reach OPEN; default requireMaskedClientFrames/acceptMaskedServerFrames",
    "oracle = independent RFC 6455 section 5 decision procedure written in the harness; where the RFC leaves timing open (non-minimal length visible before the mask octets arrive; close codes 1012-1014 registered after RFC 6455; callbacks for frames after a peer close or after a violation answered by closing handshake) the oracle is 'don't care'",
    "streams are templates of literal and free octets; frames longer than the octet bound are not delivered completely",
    "UTF-8 validation by the NVX C validator is outside the claim (AUTOBAHN_USE_NVX=0)",
]
BOUNDS = {
    "quick": "free octets per stream <= 6 (all 65536 values of the first two header octets in every context: role x failByDrop x {outside,inside text,inside binary message} x compression on/off), 13 stream templates (extended 16/64-bit lengths, close payloads with free code and reason, fragmented text with free octets, ping inside a fragmented message), feeding whole / octet-wise / one cut at every position; the endpoint's validator replaced by the NVX cffi wrapper over the kernel contract model (nvx/ units); fragmented text with an empty final / middle fragment",
    "thorough": "free octets per stream <= 9, all templates x both roles x both fail modes, every 1-cut and octet-wise split",
}
EXPECT_COVERS = ["validator:nvx-wrapper", "t:incomplete", "t:pv", "t:ip", "t:close", "ev:msg", "ev:ping", "ev:pong", "mode:drop", "mode:handshake"]
BUDGET = {"quick": dict(wall_s=400, max_paths=60000, diff_samples=3), "thorough": dict(wall_s=3000, max_paths=600000)}

VALID_CLOSE = [1000, 1001, 1002, 1003, 1007, 1008, 1009, 1010, 1011]


class Term(Exception):
    def __init__(self, kind, **kw):
        self.kind, self.kw = kind, kw


def oracle(sx, data, server, compress):
    """independent RFC 6455 walk of the stream -> (events, terminal kind, extra)"""
    from symx.core import mkbytes
    n = len(data)
    pos = 0
    events = []
    inside = None      # [is_binary, chunks, utf8_state]
    idx = lambda v: v.__index__() if hasattr(v, "e") else v  # noqa
    try:
        while True:
            if n - pos < 2:
                raise Term("incomplete")
            b0, b1 = data[pos], data[pos + 1]
            fin = bool((b0 & 0x80) != 0)
            rsv = (b0 >> 4) & 7
            rsv0, rsv4 = bool(rsv == 0), bool(rsv == 4)
            op = b0 & 0x0F
            ctl = bool(op > 7)
            masked = bool((b1 & 0x80) != 0)
            l7 = b1 & 0x7F
            if not rsv0 and not (compress and rsv4):
                raise Term("pv", why="rsv")
            if server and not masked:
                raise Term("pv", why="unmasked client frame")
            if not server and masked:
                raise Term("pv", why="masked server frame")
            if ctl:
                if not fin:
                    raise Term("pv", why="fragmented control")
                if bool(l7 > 125):
                    raise Term("pv", why="control > 125")
                is8, is9, is10 = bool(op == 8), bool(op == 9), bool(op == 10)
                if not (is8 or is9 or is10):
                    raise Term("pv", why="reserved control opcode")
                if is8 and bool(l7 == 1):
                    raise Term("pv", why="close len 1")
                if compress and rsv4:
                    raise Term("pv", why="compressed control")
            else:
                is0, is1, is2 = bool(op == 0), bool(op == 1), bool(op == 2)
                if not (is0 or is1 or is2):
                    raise Term("pv", why="reserved data opcode")
                if inside is None and is0:
                    raise Term("pv", why="continuation outside message")
                if inside is not None and not is0:
                    raise Term("pv", why="new message inside message")
                if compress and rsv4 and inside is not None:
                    raise Term("pv", why="rsv1 on continuation")
            short = bool(l7 < 126)
            is126 = (not short) and bool(l7 == 126)
            ext = 0 if short else (2 if is126 else 8)
            hdr = 2 + ext + (4 if masked else 0)
            ln = l7
            if ext and n - pos >= 2 + ext:
                ln = 0
                for k in range(ext):
                    ln = (ln << 8) | data[pos + 2 + k]
                nonmin = bool(ln < 126) if ext == 2 else (bool(ln < 65536) or bool(ln > 0x7FFFFFFFFFFFFFFF))
            else:
                nonmin = False
            if n - pos < hdr:
                if nonmin:
                    raise Term("dontcare", why="non-minimal length visible before header complete")
                raise Term("incomplete")
            if nonmin:
                raise Term("pv", why="length encoding")
            p = pos + 2 + ext
            mask = None
            if masked:
                mask = data[p:p + 4]
                p += 4
            avail = n - p
            complete = bool(ln <= avail)
            take = idx(ln) if complete else avail
            raw = data[p:p + take]
            if mask is not None:
                payload = mkbytes([raw[i] ^ mask[i & 3] for i in range(take)])
            else:
                payload = raw
            if ctl:
                if not complete:
                    raise Term("incomplete")
                if is9:
                    events.append(("ping", payload))
                elif is10:
                    events.append(("pong", payload))
                else:
                    if take == 0:
                        raise Term("close", code=None, reason=None)
                    code = (payload[0] << 8) | payload[1]
                    okc = sx.Or(*[code == c for c in VALID_CLOSE]) if True else None
                    okc = sx.Or(okc, sx.And(code >= 3000, code <= 4999))
                    if not bool(okc):
                        if bool(sx.And(code >= 1012, code <= 1014)):
                            raise Term("dontcare", why="close code registered after RFC 6455")
                        raise Term("pv", why="invalid close code")
                    s = S0
                    for b in payload[2:]:
                        s2 = ref_step(sx, s, b)
                        if bool(s2 == REJ):
                            raise Term("ip", why="close reason utf8")
                        s = idx(s2)
                    if s != S0:
                        raise Term("ip", why="close reason truncated utf8")
                    raise Term("close", code=code, reason=payload[2:])
            else:
                if inside is None:
                    inside = [is2, [], S0, is1]
                inside[1].append(payload)
                if inside[3]:
                    s = inside[2]
                    for b in payload:
                        s2 = ref_step(sx, s, b)
                        if bool(s2 == REJ):
                            raise Term("ip", why="text utf8")
                        s = idx(s2)
                    inside[2] = s
                if not complete:
                    raise Term("incomplete")
                if fin:
                    if inside[3] and inside[2] != S0:
                        raise Term("ip", why="text ends inside code point")
                    events.append(("msg", wslib.concat(inside[1]), inside[0]))
                    inside = None
            pos = p + take
    except Term as t:
        return events, t.kind, t.kw


class _IdentityPMCE:
    EXTENSION_NAME = "permessage-identity-stub"

    def start_decompress_message(self):
        pass

    def decompress_message_data(self, data):
        return data

    def end_decompress_message(self):
        pass

    def start_compress_message(self):
        pass

    def compress_message_data(self, data):
        return data

    def end_compress_message(self):
        return b""


def _build(sx, template, server):
    """template: list of ('sym', n) | ('lit', bytes) | ('frame', opcode, payload_spec, fin, rsv) where
    payload_spec is ('sym', n) or ('lit', bytes); frames are masked with a free key when sent to a server"""
    out = b""
    k = 0
    for seg in template:
        if seg[0] == "sym":
            out = out + sx.bytes("d%d" % k, seg[1])
        elif seg[0] == "lit":
            out = out + seg[1]
        else:
            _, opcode, ps, fin, rsv = seg
            pl = sx.bytes("p%d" % k, ps[1]) if ps[0] == "sym" else ps[1]
            mask = sx.bytes("k%d" % k, 4) if server else None
            out = out + wslib.build_frame(opcode, pl, fin=fin, rsv=rsv, mask=mask)
        k += 1
    return out


def rx(sx, server, fbd, compress, template, split, fw="twisted", validator="py"):
    if fw == "asyncio":
        # the asyncio adapter queues what data_received() gets and decodes it from a loop callback: "queued:c" hands over two segments before
        # the loop runs, "stepped:c" lets the loop run in between - the verdict is the same as for the whole stream
        loop, trace, ep, rnd = wslib.open_one_aio(sx, server, dict(failByDrop=fbd))
        clock = None
    else:
        clock, trace, ep, rnd = wslib.open_one(sx, server, dict(failByDrop=fbd))
    p = ep.p
    if compress:
        p._perMessageCompress = _IdentityPMCE()
    if validator == "nvx":
        # the validator class a default installation uses: the cffi wrapper autobahn.nvx._utf8validator.Utf8Validator, here over the
        # contract model of its C kernel (see C09); the endpoint's judgement must not depend on which class validates
        from . import c09
        p.utf8validator = c09._mk_validator(sx, "nvx")
        sx.cover("validator:nvx-wrapper")
    data = _build(sx, template, server)
    n = len(data)
    exc = None
    try:
        if fw == "asyncio":
            mode, c = split.split(":")
            c = int(c)
            p.data_received(data[:c])
            if mode == "stepped":
                wslib.run_loop(loop)
            if ep.t.closed is None:
                p.data_received(data[c:])
            wslib.run_loop(loop)
            if loop.verif_errors:
                raise RuntimeError("exception reached the event loop: %s" % loop.verif_errors[0])
        elif split == "whole":
            p.dataReceived(data)
        elif split == "bytewise":
            for i in range(n):
                if ep.t.closed is not None or p.state != p.STATE_OPEN:
                    break
                p.dataReceived(data[i:i + 1])
        else:
            c = int(split)
            p.dataReceived(data[:c])
            if ep.t.closed is None:
                p.dataReceived(data[c:])
    except Exception as e:  # noqa
        exc = e
    sx.check(exc is None, "no-exception-escapes-dataReceived", info=repr(exc))
    if exc is not None:
        return ["exception", type(exc).__name__]
    who = ep.who
    if clock is not None:
        wslib.drain(clock)
    else:
        wslib.run_loop(loop)
    events, term, kw = oracle(sx, data if split != "bytewise" else data, server, compress)
    sx.cover("t:" + term)
    sx.cover("mode:drop" if fbd else "mode:handshake")
    delivered = [e for e in trace if e[0] == who and e[1] in ("msg", "ping", "pong")]
    info = dict(term=term, why=kw.get("why"), split=split)
    k = len(events)
    if term == "dontcare":
        return ["dontcare", kw.get("why")]
    # ---- the well-formed prefix is delivered exactly
    sx.check(len(delivered) >= k, "all-events-of-wellformed-prefix-delivered", info=info)
    for (w, kind, *rest), exp in zip(delivered[:k], events):
        sx.check(kind == exp[0], "event-kind-in-order", info=info)
        if kind == exp[0]:
            sx.check(rest[0] == exp[1], "event-payload-intact", info=info)
            if kind == "msg":
                sx.check(rest[1] == exp[2], "text/binary-flag", info=info)
        sx.cover("ev:" + exp[0])
    tail = delivered[k:]
    # ---- frames we wrote: pongs answer the pings of the prefix, in order, same payload
    wire = wslib.concat(ep.t.take())
    frames, rest = wslib.parse_frames(sx, wire)
    sx.check(len(rest) == 0, "written-octets-are-whole-frames")
    pongs = [f for f in frames if f.opcode == 10]
    pings = [e for e in events if e[0] == "ping"]
    closes = [f for f in frames if f.opcode == 8]
    others = [f for f in frames if f.opcode not in (8, 10)]
    sx.check(len(others) == 0, "only-pong-and-close-frames-written")
    if term in ("incomplete", "close") or not fbd:
        sx.check(len(pongs) == len(pings), "one-pong-per-ping", info=info)
    for f, e in zip(pongs, pings):
        sx.check(f.payload == e[1], "pong-payload==ping-payload", info=info)
    if term == "incomplete":
        sx.check(len(tail) == 0, "nothing-beyond-the-stream-delivered", info=info)
        sx.check(ep.t.closed is None, "connection-stays-up-on-valid-prefix", info=info)
        sx.check(len(closes) == 0, "no-close-frame-on-valid-prefix", info=info)
        sx.check(p.state == p.STATE_OPEN, "state-open-on-valid-prefix", info=info)
    elif term in ("pv", "ip"):
        want = 1002 if term == "pv" else 1007
        sx.check(len([e for e in tail if e[1] == "msg"]) == 0, "no-message-at-or-after-violation", info=info)
        if fbd:
            sx.check(len(tail) == 0, "nothing-delivered-after-violation(drop)", info=info)
            sx.check(ep.t.closed == "abort", "violation->tcp-dropped", info=info)
            sx.check(len(closes) == 0, "no-close-frame-when-failing-by-drop", info=info)
            sx.check(p.state == p.STATE_CLOSED, "state-closed-after-drop", info=info)
            if fw == "asyncio":
                p.connection_lost(None)
                wslib.run_loop(loop)
            else:
                from twisted.python.failure import Failure
                from twisted.internet.error import ConnectionDone
                p.connectionLost(Failure(ConnectionDone()))
            oc = trace.of(who, "close")
            sx.check(len(oc) == 1, "onClose-once", info=info)
            if oc:
                sx.check(oc[0][2] is False and oc[0][3] == 1006, "unclean-close-1006-reported", info=info)
        else:
            sx.check(len(closes) >= 1, "violation->close-frame-sent", info=info)
            if closes:
                c = closes[0]
                sx.check(c.length >= 2, "close-frame-has-status", info=info)
                if c.length >= 2:
                    code = (c.payload[0] << 8) | c.payload[1]
                    sx.check(code == want, "close-status-1002/1007", info=dict(info, want=want))
                sx.check(len(closes) == 1, "at-most-one-close-frame", info=info)
                sx.check(frames[-1] is c or frames[-1].opcode == 8, "nothing-written-after-close-frame", info=info)
            sx.check(p.state in (p.STATE_CLOSING, p.STATE_CLOSED), "state-closing-after-violation", info=info)
    elif term == "close":
        sx.check(len(closes) == 1, "peer-close-answered-by-exactly-one-close-frame", info=info)
        if server:
            sx.check(ep.t.closed is not None, "server-drops-tcp-after-close-reply", info=info)
    return [term, kw.get("why"), len(events), len(delivered)]


# ---- stream templates ------------------------------------------------------------------------
def T(name, *segs):
    return (name, list(segs))


def templates(tier, server, fbd):
    q = tier == "quick"
    L = []
    mlen = 4 if server else 0
    # all 65536 values of the first two header octets (rest of the header literal, payload withheld)
    L.append(T("hdr2", ("sym", 2), ("lit", b"\x01\x02\x03\x04"[:mlen])))
    L.append(T("inside-text+hdr2", ("frame", 1, ("lit", b"\xc3"), False, 0), ("sym", 2), ("lit", b"\x01\x02\x03\x04"[:mlen])))
    L.append(T("inside-bin+hdr2", ("frame", 2, ("lit", b"ab"), False, 0), ("sym", 2), ("lit", b"\x01\x02\x03\x04"[:mlen])))
    if fbd or not q:
        nsym = (6 if server else 3) if q else (8 if server else 4)
        if not fbd:
            nsym = 6 if server else 3
        L.append(T("free", ("sym", nsym)))
        L.append(T("inside-text+free", ("frame", 1, ("lit", b"\xc3"), False, 0), ("sym", nsym)))
        L.append(T("inside-bin+free", ("frame", 2, ("lit", b"ab"), False, 0), ("sym", nsym)))
    # extended lengths: first header octet + length octets free, payload withheld / short
    L.append(T("len16-lit", ("sym", 1), ("lit", bytes([(0x80 if server else 0) | 126])), ("sym", 2), ("lit", b"\x01\x02\x03\x04"[:mlen] + b"xyz")))
    L.append(T("len64-lit", ("sym", 1), ("lit", bytes([(0x80 if server else 0) | 127])), ("sym", 8), ("lit", b"\x01\x02\x03\x04"[:mlen])))
    # close payloads: free status code + free reason octets
    L.append(T("close-code", ("frame", 8, ("sym", 2), True, 0)))
    L.append(T("close-reason", ("frame", 8, ("sym", 4 if q else 6), True, 0)))
    L.append(T("close-1", ("frame", 8, ("sym", 1), True, 0)))
    L.append(T("close-empty+more", ("frame", 8, ("lit", b""), True, 0), ("sym", 2)))
    # text messages with free payload, fragmented, with a ping interleaved
    L.append(T("text-frag", ("frame", 1, ("sym", 2), False, 0), ("frame", 9, ("sym", 1), True, 0), ("frame", 0, ("sym", 2 if q else 3), True, 0)))
    # a close frame with a free status code and reason arriving between the fragments of a text message whose first fragment may end
    # inside a multi-octet code point (the close reason is judged on its own, independent of the message in progress)
    L.append(T("text-frag+close", ("frame", 1, ("sym", 1), False, 0), ("frame", 8, ("sym", 3 if q else 5), True, 0)))
    # fragmented text whose last / middle fragment is empty: the verdict at the end of the message is about everything received so far
    L.append(T("text-frag-empty-final", ("frame", 1, ("sym", 2), False, 0), ("frame", 0, ("lit", b""), True, 0)))
    L.append(T("text-frag-empty-mid", ("frame", 1, ("sym", 1), False, 0), ("frame", 0, ("lit", b""), False, 0), ("frame", 0, ("sym", 1), True, 0)))
    L.append(T("text-1frame", ("frame", 1, ("sym", 4 if q else 5), True, 0)))
    L.append(T("bin+ping+pong", ("frame", 2, ("sym", 2), True, 0), ("frame", 9, ("sym", 2), True, 0), ("frame", 10, ("sym", 1), True, 0)))
    return L


def units(tier):
    U = []
    for server in (True, False):
        for fbd in (True, False):
            for name, tpl in templates(tier, server, fbd):
                n = sum((s[1] if s[0] == "sym" else len(s[1])) if s[0] in ("sym", "lit") else
                        (2 + (4 if server else 0) + (s[2][1] if s[2][0] == "sym" else len(s[2][1]))) for s in tpl)
                comps = (False, True) if name in ("hdr2", "inside-text+hdr2", "text-frag") or (name == "free" and fbd) else (False,)
                for compress in comps:
                    splits = ["whole", "bytewise"]
                    if tier == "quick":
                        splits += [str(c) for c in sorted({1, n // 2} if name.endswith("hdr2") or name == "free" else {1, 3, n - 1}) if 0 < c < n]
                    else:
                        splits += [str(c) for c in range(1, n)]
                    if name == "free" and not fbd:
                        # closing-handshake mode keeps parsing after a violation: whole-stream feeding of free octets is bounded lower
                        pass
                    for sp in splits:
                        U.append(("%s/%s/%s/%s/%s" % ("S" if server else "C", "drop" if fbd else "hs", name, "z" if compress else "-", sp),
                                  "rx", dict(server=server, fbd=fbd, compress=compress, template=tpl, split=sp), dict(weight=n)))
                if name in ("text-frag", "text-frag-empty-final", "text-frag-empty-mid", "text-1frame", "text-frag+close") and (tier != "quick" or fbd != server):
                    for sp in ("whole", "bytewise"):
                        U.append(("nvx/%s/%s/%s/%s" % ("S" if server else "C", "drop" if fbd else "hs", name, sp), "rx",
                                  dict(server=server, fbd=fbd, compress=False, template=tpl, split=sp, validator="nvx"), dict(weight=n)))
                # the asyncio adapter's receive queue: a few templates, segments piled up in the queue or separated by a loop turn
                if name in ("text-frag", "bin+ping+pong", "close-reason") and fbd == server:
                    for sp in ("queued:3", "stepped:3", "queued:%d" % (n - 2)):
                        U.append(("aio/%s/%s/%s/%s" % ("S" if server else "C", "drop" if fbd else "hs", name, sp), "rx",
                                  dict(server=server, fbd=fbd, compress=False, template=tpl, split=sp, fw="asyncio"), dict(weight=n, framework="asyncio")))
    return U
