"""C07 genuine defect (fixed by 261535fb): a handshake response with one non-UTF-8 octet raised
UnicodeDecodeError out of the client's dataReceived().  Run: /venv/bin/python findings/c07_demo.py [tree]"""
import sys
sys.path.insert(0, (sys.argv[1] if len(sys.argv) > 1 else "/repo") + "/src")
import txaio
txaio.use_twisted()
from twisted.internet.task import Clock
from autobahn.twisted.websocket import WebSocketClientFactory, WebSocketClientProtocol


class T:
    def write(self, d): pass
    def loseConnection(self): print("dropped")
    abortConnection = loseConnection
    def getPeer(self):
        from twisted.internet.address import IPv4Address
        return IPv4Address("TCP", "127.0.0.1", 1)
    getHost = getPeer
    def setTcpNoDelay(self, v): pass
    def registerProducer(self, *a): pass
    def unregisterProducer(self): pass


f = WebSocketClientFactory("ws://localhost:9000", reactor=Clock())
f.protocol = WebSocketClientProtocol
p = f.buildProtocol(None)
p.makeConnection(T())
try:
    p.dataReceived(b"HTTP/1.1 101 X\r\nX-Info: \xff\r\n\r\n")
    print("no exception (handshake refused cleanly)")
except UnicodeDecodeError as e:
    print("DEFECT: exception escapes dataReceived:", e)
