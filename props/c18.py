"""C18  Remote exceptions arrive with their URI, arguments and class."""
from . import wamplib

PID = "C18"
FUNCTIONS = [
    "autobahn.wamp.protocol: BaseSession.define / _message_from_exception / _exception_from_message",
    "autobahn.wamp.protocol: ApplicationSession.onMessage Invocation error continuation and Error branch (end-to-end units)",
    "autobahn.wamp.uri: error decorator, Pattern",
    "autobahn.wamp.exception: ApplicationError",
    "autobahn.wamp.message: Error.__init__ / marshal / parse",
]
STUBS = ["transport -> recording ITransport; the ERROR travels callee -> caller through marshal()/parse() and through the JSON serializer (real codec on concrete data)", "loggers -> empty bodies"]
ASSUMPTIONS = [
    "exception classes from a menu of 8 shapes; positional arguments include free integers, keyword arguments from a menu ('across every serializer' is covered for JSON here and by the C03 codec contract otherwise)",
    "keyword-argument names that collide with parameter / attribute names on the receiving side (error, self, callee, enc_algo, ...) are driven by the peerkw units with a free integer value",
]
BOUNDS = {"quick": "8 exception-class shapes x 4 argument shapes (free 64-bit integers) x 3 keyword shapes x traceback on/off x {direct functions, full call through two sessions}; 8 exception types raised by the registered class's constructor; registrations of 4 sessions in one process; 11 colliding keyword names x 3 receiver registrations x args on/off; exception classes in an inheritance relation (derived class with its own registration, derived class without one)", "thorough": "same, plus msgpack/cbor codecs on concrete values"}
EXPECT_COVERS = ["cls:registered", "cls:fallback", "uri:registered", "uri:runtime_error", "uri:carried", "e2e"]
BUDGET = {"quick": dict(wall_s=200, max_paths=20000, diff_samples=4), "thorough": dict(wall_s=1200)}

SHAPES = ["apperror", "decorated", "defined", "undefined", "ctor-arity", "ctor-raises", "apperror-subclass-own-uri", "decorated-kwargs", "derived-own-uri", "derived-unregistered"]
ARGS = ["none", "one", "two", "str"]
KW = ["none", "k", "kk"]


def _classes():
    from autobahn import wamp
    from autobahn.wamp.exception import ApplicationError

    @wamp.error("com.myapp.error.decorated")
    class Decorated(Exception):
        pass

    class Defined(Exception):
        pass

    class Undefined(Exception):
        pass

    class CtorArity(Exception):
        def __init__(self, a, b):
            Exception.__init__(self, a, b)

    class CtorRaises(Exception):
        def __init__(self, *a):
            if a and a[0] == 0:
                raise ValueError("zero not allowed")
            Exception.__init__(self, *a)

    @wamp.error("com.myapp.error.family")
    class Family(ApplicationError):
        pass

    @wamp.error("com.myapp.error.deckw")
    class DecKw(Exception):
        def __init__(self, *a, **k):
            Exception.__init__(self, *a)
            self.kwargs = k
    # exception classes in an inheritance relation: each class has ITS registration (or none), whatever its bases have
    class Derived(Defined):
        pass

    class DerivedUnregistered(Decorated):
        pass
    return dict(Decorated=Decorated, Defined=Defined, Undefined=Undefined, CtorArity=CtorArity, CtorRaises=CtorRaises, Family=Family, DecKw=DecKw,
                Derived=Derived, DerivedUnregistered=DerivedUnregistered)


def _register(s, C):
    s.define(C["Decorated"])
    s.define(C["Defined"], "com.myapp.error.defined")
    s.define(C["CtorArity"], "com.myapp.error.arity")
    s.define(C["CtorRaises"], "com.myapp.error.ctorraises")
    s.define(C["Family"])
    s.define(C["DecKw"])
    s.define(C["Derived"], "com.myapp.error.derived")          # after its base class


def _make(sx, C, shape, ash, ksh):
    from autobahn.wamp.exception import ApplicationError
    if sx is None:
        a = {"none": (), "one": (5,), "two": (0, 2 ** 53), "str": ("text", 7)}[ash]
    else:
        a = {"none": (), "one": (sx.int("a0", -2 ** 63, 2 ** 63),), "two": (sx.int("a0", -2 ** 63, 2 ** 63), sx.int("a1", 0, 2 ** 53)), "str": ("text", 7)}[ash]
    k = {"none": {}, "k": {"k": 1}, "kk": {"k": 1, "z": "two"}}[ksh]
    if shape == "apperror":
        return ApplicationError("com.myapp.error.custom", *a, **k), "com.myapp.error.custom", a, k, ApplicationError
    if shape == "apperror-subclass-own-uri":
        return C["Family"]("com.myapp.error.family.quota", *a, **k), "com.myapp.error.family.quota", a, k, None
    if shape == "decorated-kwargs":
        return C["DecKw"](*a, **k), "com.myapp.error.deckw", a, k, C["DecKw"]
    cls, uri = {"decorated": (C["Decorated"], "com.myapp.error.decorated"), "defined": (C["Defined"], "com.myapp.error.defined"),
                "undefined": (C["Undefined"], "wamp.error.runtime_error"), "ctor-arity": (C["CtorArity"], "com.myapp.error.arity"),
                "ctor-raises": (C["CtorRaises"], "com.myapp.error.ctorraises"), "derived-own-uri": (C["Derived"], "com.myapp.error.derived"),
                "derived-unregistered": (C["DerivedUnregistered"], "wamp.error.runtime_error")}[shape]
    if shape == "ctor-arity":
        e = cls(1, 2)
        e.args = tuple(a)        # raised with a different number of arguments than the constructor takes
    elif shape == "ctor-raises":
        e = cls(1)
        e.args = tuple(a)
    else:
        e = cls(*a)
    return e, uri, a, {}, (cls if shape not in ("undefined", "derived-unregistered") else None)


def direct(sx, shape, ash, ksh, tb):
    """_exception_from_message(parse(marshal(_message_from_exception(e))))"""
    from autobahn.wamp import message
    from autobahn.wamp.exception import ApplicationError
    from autobahn.wamp.serializer import JsonSerializer
    clock, trace, callee, t1 = wamplib.joined_session(sx)
    clock2, trace2, caller, t2 = wamplib.joined_session(sx)
    C = _classes()
    _register(callee, C)
    _register(caller, C)
    e, uri, a, k, cls = _make(sx, C, shape, ash, ksh)
    info = dict(shape=shape, args=ash, kwargs=ksh, tb=tb)
    try:
        m = callee._message_from_exception(message.Invocation.MESSAGE_TYPE, 77, e, ["tb line"] if tb else None)
    except Exception as x:  # noqa
        sx.fail("_message_from_exception-raised", info=dict(info, exc=repr(x)))
        return ["exc"]
    sx.check(m.error == uri, "error-uri-on-the-wire", info=dict(info, got=m.error, want=uri))
    sx.cover("uri:carried" if shape.startswith("apperror") else ("uri:runtime_error" if shape in ("undefined", "derived-unregistered") else "uri:registered"))
    wire = m.marshal()
    m2 = message.Error.parse(wire)
    want_k = dict(k)
    if tb:
        want_k["traceback"] = ["tb line"]
    sx.check(sx.And(*[x == y for x, y in zip(m2.args or [], a)]) if len(m2.args or []) == len(a) else False, "args-on-the-wire", info=info)
    sx.check((m2.kwargs or {}) == want_k, "kwargs-on-the-wire", info=dict(info, got=repr(m2.kwargs)))
    try:
        exc = caller._exception_from_message(m2)
    except Exception as x:  # noqa
        sx.fail("_exception_from_message-raised", info=dict(info, exc=repr(x)))
        return ["exc"]
    # what the caller sees
    if isinstance(exc, ApplicationError):
        sx.check(exc.error == uri, "caller-sees-the-uri", info=dict(info, got=exc.error))
        sx.check(len(exc.args) == len(a) and bool(sx.And(*[x == y for x, y in zip(exc.args, a)]) if a else True), "caller-sees-the-args", info=info)
        sx.check(dict(exc.kwargs) == want_k, "caller-sees-the-kwargs", info=dict(info, got=repr(exc.kwargs)))
    else:
        sx.check(len(exc.args) == len(a) and bool(sx.And(*[x == y for x, y in zip(exc.args, a)]) if a else True), "caller-sees-the-args", info=info)
    constructible = dict(decorated=not want_k, defined=not want_k, undefined=False, apperror=True)
    constructible["derived-own-uri"] = not want_k
    constructible["derived-unregistered"] = False
    if shape == "ctor-arity":
        constructible[shape] = (len(a) == 2 and not want_k)
    if shape == "ctor-raises":
        constructible[shape] = (not want_k) and not (len(a) > 0 and bool(a[0] == 0))
    if shape == "decorated-kwargs":
        constructible[shape] = True
    if shape == "apperror-subclass-own-uri":
        # the carried, more specific URI is not itself registered: generic application error carrying it
        constructible[shape] = False
    if constructible[shape] and cls is not None:
        sx.check(type(exc) is cls, "caller-gets-the-registered-class", info=dict(info, got=type(exc).__name__))
        sx.cover("cls:registered")
    else:
        sx.check(isinstance(exc, ApplicationError), "fallback-is-generic-ApplicationError-carrying-everything", info=dict(info, got=type(exc).__name__))
        sx.cover("cls:fallback")
    return [shape, type(exc).__name__]


def end_to_end(sx, shape, ash, ksh, codec):
    """a real call: callee endpoint raises, ERROR goes through the codec, the caller's Deferred fails with the mapped exception"""
    from autobahn.wamp import message
    from autobahn.wamp.exception import ApplicationError
    from autobahn.wamp import serializer as ser
    clock, trace, callee, t1 = wamplib.joined_session(sx)
    clock2, trace2, caller, t2 = wamplib.joined_session(sx)
    C = _classes()
    _register(callee, C)
    _register(caller, C)
    # concrete values here: the real codec (C library) is in the loop
    e, uri, a, k, cls = _make(None, C, shape, ash, ksh)

    def ep():
        raise e
    callee.register(ep, "com.p")
    callee.onMessage(message.Registered(t1.sent[-1].request, 600))
    got = []
    d = caller.call("com.p")
    d.addErrback(lambda f: got.append(f.value))
    rid = t2.sent[-1].request
    n = len(t1.sent)
    callee.onMessage(message.Invocation(900, 600))
    errs = [m for m in t1.sent[n:] if isinstance(m, message.Error)]
    info = dict(shape=shape, args=ash, kwargs=ksh, codec=codec)
    sx.check(len(errs) == 1, "callee-sends-one-ERROR", info=info)
    if not errs:
        return ["no-error"]
    S = {"json": ser.JsonSerializer, "msgpack": getattr(ser, "MsgPackSerializer", None), "cbor": getattr(ser, "CBORSerializer", None)}[codec]
    if S is None:
        return ["codec-missing"]
    s_ = S()
    data, is_bin = s_.serialize(errs[0])
    back = s_.unserialize(data, is_bin)[0]
    relay = message.Error(message.Call.MESSAGE_TYPE, rid, back.error, args=back.args, kwargs=back.kwargs)
    try:
        caller.onMessage(relay)
    except Exception as x:  # noqa
        sx.fail("error-lost:exception-escapes-caller-onMessage", info=dict(info, exc=repr(x)))
        return ["exc"]
    sx.check(len(got) == 1, "pending-call-fails-exactly-once", info=info)
    if got:
        x = got[0]
        sx.check(getattr(x, "error", uri) == uri or not isinstance(x, ApplicationError), "uri-preserved", info=dict(info, got=getattr(x, "error", None)))
        sx.check(tuple(x.args) == tuple(a), "args-preserved", info=dict(info, got=repr(x.args)))
        if isinstance(x, ApplicationError):
            sx.check(dict(x.kwargs) == dict(k), "kwargs-preserved", info=dict(info, got=repr(x.kwargs)))
    sx.cover("e2e")
    return [shape, type(got[0]).__name__ if got else None]


PEER_KEYS = ["error", "self", "args", "kwargs", "msg", "callee", "callee_authid", "callee_authrole", "enc_algo", "forward_for", "traceback"]


def peer_kwargs(sx, key, registered, with_args):
    """an ERROR from a peer (any WAMP implementation) whose keyword arguments use a name that also is a parameter / attribute name on
    the receiving side: the pending call still fails exactly once, with the carried URI and the same keyword arguments"""
    from autobahn.wamp import message
    from autobahn.wamp.exception import ApplicationError
    clock, trace, caller, t = wamplib.joined_session(sx)
    C = _classes()
    _register(caller, C)
    got = []
    d = caller.call("com.p")
    d.addErrback(lambda f: got.append(f.value))
    rid = t.sent[-1].request
    uri = {"no": "com.other.error", "generic-ctor": "com.myapp.error.decorated", "kwargs-ctor": "com.myapp.error.deckw"}[registered]
    v = sx.int("v", 0, 2 ** 53)
    kw = {key: v}
    args = [1, 2] if with_args else None
    info = dict(key=key, registered=registered, with_args=with_args)
    try:
        caller.onMessage(message.Error(message.Call.MESSAGE_TYPE, rid, uri, args=args, kwargs=dict(kw)))
    except Exception as x:  # noqa
        sx.fail("error-lost:exception-escapes-caller-onMessage", info=dict(info, exc=repr(x)), known=[("C18-kwargs-reserved-name:" + key, True)])
        return ["exc"]
    sx.check(len(got) == 1, "pending-call-fails-exactly-once", info=info)
    if got:
        x = got[0]
        if isinstance(x, ApplicationError):
            sx.check(x.error == uri, "uri-preserved", info=dict(info, got=x.error))
        sx.check(tuple(x.args) == tuple(args or ()), "args-preserved", info=dict(info, got=repr(x.args)))
        have = getattr(x, "kwargs", None)
        ok = have is not None and set(have) == {key} and bool(have[key] == v)
        sx.check(ok, "kwargs-preserved", info=dict(info, got=repr(have)), known=[("C18-kwargs-reserved-name:" + key, True)])
    sx.cover("e2e")
    return [key, type(got[0]).__name__ if got else None]


CTOR_EXC = ["ValueError", "KeyError", "IndexError", "AttributeError", "RuntimeError", "ZeroDivisionError", "LookupError", "Custom"]


def ctor_failure(sx, exc_name, with_args, with_kwargs):
    """the class registered for the URI has a constructor that raises - ANY exception type - for the received payload: the error is not lost,
    the call fails exactly once with a generic application error carrying URI, args and kwargs"""
    from autobahn.wamp import message
    from autobahn.wamp.exception import ApplicationError
    clock, trace, caller, t = wamplib.joined_session(sx)

    class Custom(Exception):
        pass
    exc_cls = Custom if exc_name == "Custom" else getattr(__import__("builtins"), exc_name)

    class Picky(Exception):
        def __init__(self, *a, **k):
            raise exc_cls("constructor does not like this payload")
    caller.define(Picky, "com.myapp.error.picky")
    got = []
    d = caller.call("com.p")
    d.addErrback(lambda f: got.append(f.value))
    rid = t.sent[-1].request
    v = sx.int("v", 0, 2 ** 53)
    args = [v, "x"] if with_args else None
    kwargs = {"k": v} if with_kwargs else None
    info = dict(exc=exc_name, with_args=with_args, with_kwargs=with_kwargs)
    try:
        caller.onMessage(message.Error(message.Call.MESSAGE_TYPE, rid, "com.myapp.error.picky", args=args, kwargs=kwargs))
    except Exception as x:  # noqa
        sx.fail("error-lost:exception-escapes-caller-onMessage", info=dict(info, escaped=repr(x)))
        return ["exc"]
    sx.check(len(got) == 1, "pending-call-fails-exactly-once", info=info)
    if got:
        x = got[0]
        ok = isinstance(x, ApplicationError) and x.error == "com.myapp.error.picky" and len(x.args) == len(args or ()) and \
            bool(sx.And(*[a == b for a, b in zip(x.args, args or ())]) if args else True) and set(x.kwargs) == set(kwargs or {}) and \
            bool(x.kwargs["k"] == v if kwargs else True)
        sx.check(ok, "fallback-is-generic-ApplicationError-carrying-everything", info=dict(info, got=type(x).__name__))
    sx.cover("cls:fallback")
    return [exc_name]


def isolation(sx, order):
    """registrations are per session: what one session define()s never changes what another session of the same process surfaces"""
    from autobahn.wamp import message
    from autobahn.wamp.exception import ApplicationError
    URI = "com.myapp.error.shared"

    class A(Exception):
        pass

    class B(Exception):
        pass
    sessions = {}

    def mk(name, cls):
        clock, trace, s, t = wamplib.joined_session(sx)
        if cls is not None:
            s.define(cls, URI)
        sessions[name] = (s, t, cls)
    plan = [("a", A), ("plain", None), ("b", B)] if order == 0 else [("plain", None), ("b", B), ("a", A)]
    for name, cls in plan:
        mk(name, cls)
    mk("late", None)                   # created after the others have registered their classes
    v = sx.int("v", 0, 2 ** 53)
    for name, (s, t, cls) in sessions.items():
        got = []
        d = s.call("com.p")
        d.addErrback(lambda f: got.append(f.value))
        try:
            s.onMessage(message.Error(message.Call.MESSAGE_TYPE, t.sent[-1].request, URI, args=[v]))
        except Exception as x:  # noqa
            sx.fail("error-lost:exception-escapes-caller-onMessage", info=dict(session=name, escaped=repr(x)))
            continue
        info = dict(session=name, order=order, got=type(got[0]).__name__ if got else None)
        sx.check(len(got) == 1, "pending-call-fails-exactly-once", info=info)
        if got:
            want = cls if cls is not None else ApplicationError
            sx.check(type(got[0]) is want and bool(got[0].args[0] == v), "each-session-surfaces-its-own-registration", info=info)
    sx.cover("cls:registered")
    return [order]


def units(tier):
    U = []
    q = tier == "quick"
    for exc_name in CTOR_EXC:
        for wa, wk in ((True, True), (True, False), (False, False)):
            U.append(("ctorfail/%s/%d%d" % (exc_name, wa, wk), "ctor_failure", dict(exc_name=exc_name, with_args=wa, with_kwargs=wk)))
    for order in (0, 1):
        U.append(("isolation/%d" % order, "isolation", dict(order=order)))
    for key in PEER_KEYS:
        for registered in ("no", "generic-ctor", "kwargs-ctor"):
            for with_args in (False, True):
                U.append(("peerkw/%s/%s/%s" % (key, registered, "args" if with_args else "-"), "peer_kwargs", dict(key=key, registered=registered, with_args=with_args)))
    for shape in SHAPES:
        for ash in ARGS:
            for ksh in KW:
                if ksh != "none" and shape not in ("apperror", "apperror-subclass-own-uri", "decorated-kwargs"):
                    continue
                for tb in (False, True):
                    U.append(("direct/%s/%s/%s/%s" % (shape, ash, ksh, "tb" if tb else "-"), "direct", dict(shape=shape, ash=ash, ksh=ksh, tb=tb)))
                for codec in (("json",) if q else ("json", "msgpack", "cbor")):
                    U.append(("e2e/%s/%s/%s/%s" % (shape, ash, ksh, codec), "end_to_end", dict(shape=shape, ash=ash, ksh=ksh, codec=codec)))
    return U
