"""C05 known finding: a server with sync=True octets still on its send queue answers a peer close by queueing its close reply behind them
and calling loseConnection() in the same turn; onClose then says wasClean=True although (on a transport that stops accepting writes once it
is closing, as this recording transport does) its close frame never left.   Run: /venv/bin/python findings/c05_sync_queue_close_demo.py [tree]"""
import sys
sys.path.insert(0, (sys.argv[1] if len(sys.argv) > 1 else "/repo") + "/src")
import txaio
txaio.use_twisted()
from twisted.internet.task import Clock
from twisted.internet.address import IPv4Address
from twisted.internet.error import ConnectionDone
from twisted.python.failure import Failure
from autobahn.twisted.websocket import WebSocketServerFactory, WebSocketServerProtocol


class T:
    def __init__(self): self.out = []; self.closing = False
    def write(self, d):
        if not self.closing: self.out.append(bytes(d))
    def writeSequence(self, s):
        for x in s: self.write(x)
    def loseConnection(self): self.closing = True
    abortConnection = loseConnection
    def getPeer(self): return IPv4Address("TCP", "127.0.0.1", 1)
    getHost = getPeer
    def setTcpNoDelay(self, v): pass
    def registerProducer(self, *a): pass
    def unregisterProducer(self): pass


closed = []


class S(WebSocketServerProtocol):
    def onClose(self, wasClean, code, reason): closed.append((wasClean, code))


clock = Clock()
txaio.config.loop = clock
f = WebSocketServerFactory("ws://localhost:9000", reactor=clock); f.protocol = S
p = f.buildProtocol(None); t = T(); p.makeConnection(t)
p.dataReceived(b"GET / HTTP/1.1\r\nHost: localhost:9000\r\nUpgrade: websocket\r\nConnection: Upgrade\r\nSec-WebSocket-Key: AAECAwQFBgcICQoLDA0ODw==\r\nSec-WebSocket-Version: 13\r\n\r\n")
del t.out[:]
p.sendMessage(b"one", isBinary=True, sync=True)
p.sendMessage(b"two", isBinary=True, sync=True)
p.dataReceived(bytes([0x88, 0x82, 1, 2, 3, 4, 0x03 ^ 1, 0xe8 ^ 2]))          # masked close frame, code 1000
clock.advance(0.1)
p.connectionLost(Failure(ConnectionDone()))
wire = b"".join(t.out)
sent_close = any(wire[i] == 0x88 for i in range(len(wire)))                   # crude: a close frame header octet written
print("onClose:", closed, "| octets written before the transport was closing:", wire.hex(), "| close frame written:", sent_close)
sys.exit(0 if (not closed or not closed[0][0] or sent_close) else 1)
