"""Real-code demonstration (pre-fix 4bfbd427): progressive RESULT with no kwargs for a call made with
CallOptions(details=True, on_progress=...) raised TypeError out of ApplicationSession.onMessage.
Run: PYTHONPATH=<tree>/src /venv/bin/python findings/C04_progress_details_demo.py  (exit 1 = defect present)"""
import sys
import txaio
txaio.use_twisted()
from autobahn.twisted.wamp import ApplicationSession
from autobahn.wamp import message, role, types
from autobahn.wamp.serializer import JsonSerializer

class T:
    _serializer = JsonSerializer(); transport_details = types.TransportDetails(); is_closed = False
    def __init__(s): s.sent = []
    def send(s, m): s.sent.append(m)
    def isOpen(s): return True
    def close(s): pass

s = ApplicationSession(types.ComponentConfig("realm1")); t = T(); s.onOpen(t)
s.onMessage(message.Welcome(1, {"broker": role.RoleBrokerFeatures(), "dealer": role.RoleDealerFeatures()}))
got = []
d = s.call("com.p", options=types.CallOptions(details=True, on_progress=got.append))
try:
    s.onMessage(message.Result(t.sent[-1].request, args=[1], progress=True))
except TypeError as e:
    print("TypeError escaped onMessage:", e); sys.exit(1)
print("progress delivered:", got); sys.exit(0 if len(got) == 1 else 1)
