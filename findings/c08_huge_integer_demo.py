"""C08 genuine defect: an integer of more than 4300 decimal digits (a CBOR bignum carries it) in an id / request-type / timeout /
concurrency field or as message type code is rejected - but the ProtocolError text renders the value, and CPython refuses int->str
beyond 4300 digits: ValueError (not ProtocolError) out of parse() / Serializer.unserialize().
Run: /venv/bin/python findings/c08_huge_integer_demo.py [tree]"""
import sys
sys.path.insert(0, (sys.argv[1] if len(sys.argv) > 1 else "/repo") + "/src")
import txaio
txaio.use_twisted()
import cbor2
from autobahn.wamp.serializer import CBORSerializer
from autobahn.wamp.exception import ProtocolError

H = 10 ** 5000
cases = {"PUBLISHED request id": [17, H, 5], "ERROR request type": [8, H, 1, {}, "com.myapp.error"], "CALL timeout": [48, 1, {"timeout": -H}, "com.myapp.proc"],
         "REGISTER concurrency": [64, 1, {"concurrency": -H}, "com.myapp.proc"], "INVOCATION timeout": [68, 1, 2, {"timeout": -H}], "message type code": [H, 1, 2]}
rc = 0
for name, raw in cases.items():
    try:
        CBORSerializer().unserialize(cbor2.dumps(raw))
        print("%-24s ACCEPTED?!" % name); rc = 1
    except ProtocolError:
        print("%-24s ProtocolError (ok)" % name)
    except Exception as e:
        print("%-24s DEFECT: %s: %s" % (name, type(e).__name__, str(e)[:70])); rc = 1
sys.exit(rc)
