"""AST instrumentation + import hook: every `autobahn.*` module is served from /repo/src
(working tree, read at run time) with five node kinds rewritten so that operations CPython
would hand to C code are routed through symbolic-aware helpers.  Control flow is untouched."""
import ast
import array as _array
import base64 as _base64
import binascii as _binascii
import builtins
import collections as _collections
import importlib.abc
import importlib.machinery
import importlib.util
import os
import struct as _struct
import sys
import types

import z3

from .core import _any_eq as _core_any_eq
from .core import (CTX, SymInt, SymBool, SymBytes, SymStr, SymArrayB, SymKey, Unsupported, mkbytes, mkstr,
                   mkint, mkbool, select_table, is_sym, SYM_TYPES, ite)

REPO_SRC = os.environ.get("VERIF_REPO_SRC", "/repo/src")

H_CALL, H_GET, H_SET, H_DEL, H_IN, H_NOT, H_IS, H_MOD, H_FSTR = (
    "_sx_call_", "_sx_getitem_", "_sx_setitem_", "_sx_delitem_", "_sx_in_", "_sx_not_", "_sx_is_", "_sx_mod_", "_sx_fstr_")

_NO_REWRITE_CALLS = {"super", "locals", "globals", "vars", "eval", "exec", "dir"}


class Instr(ast.NodeTransformer):
    def visit_Subscript(self, node):
        self.generic_visit(node)
        if isinstance(node.ctx, ast.Load):
            return ast.copy_location(
                ast.Call(ast.Name(H_GET, ast.Load()), [node.value, node.slice], []), node)
        return node

    def visit_Assign(self, node):
        # a[i] = v  (single subscript target) -> _sx_setitem_(a, i, v)
        if len(node.targets) == 1 and isinstance(node.targets[0], ast.Subscript):
            t = node.targets[0]
            val = self.visit(node.value)
            obj = self.visit(t.value)
            idx = self.visit(t.slice)
            return ast.copy_location(
                ast.Expr(ast.Call(ast.Name(H_SET, ast.Load()), [obj, idx, val], [])), node)
        self.generic_visit(node)
        return node

    def visit_AnnAssign(self, node):
        # leave annotations alone (they may be evaluated lazily / be strings)
        if node.value is not None:
            node.value = self.visit(node.value)
        return node

    def visit_Compare(self, node):
        self.generic_visit(node)
        if len(node.ops) == 1:
            op = node.ops[0]
            if isinstance(op, (ast.In, ast.NotIn)):
                call = ast.Call(ast.Name(H_IN, ast.Load()), [node.left, node.comparators[0]], [])
                if isinstance(op, ast.NotIn):
                    call = ast.Call(ast.Name(H_NOT, ast.Load()), [call], [])
                return ast.copy_location(call, node)
            if isinstance(op, (ast.Is, ast.IsNot)):
                c = node.comparators[0]
                if isinstance(c, ast.Constant) and (c.value is True or c.value is False):
                    call = ast.Call(ast.Name(H_IS, ast.Load()), [node.left, c], [])
                    if isinstance(op, ast.IsNot):
                        call = ast.Call(ast.Name(H_NOT, ast.Load()), [call], [])
                    return ast.copy_location(call, node)
        return node

    def visit_Delete(self, node):
        self.generic_visit(node)
        out = []
        for t in node.targets:
            if isinstance(t, ast.Subscript):
                out.append(ast.copy_location(
                    ast.Expr(ast.Call(ast.Name(H_DEL, ast.Load()), [t.value, t.slice], [])), node))
            else:
                out.append(ast.copy_location(ast.Delete([t]), node))
        return out

    def visit_BinOp(self, node):
        self.generic_visit(node)
        if isinstance(node.op, ast.Mod) and isinstance(node.left, ast.Constant) and isinstance(node.left.value, (str, bytes)):
            return ast.copy_location(ast.Call(ast.Name(H_MOD, ast.Load()), [node.left, node.right], []), node)
        return node

    def visit_JoinedStr(self, node):
        # f-string -> helper, so that symbolic values that flow into text stay symbolic (str.__format__ must return str)
        self.generic_visit(node)
        elts = []
        for v in node.values:
            if isinstance(v, ast.Constant):
                elts.append(v)
            elif isinstance(v, ast.FormattedValue):
                spec = v.format_spec if v.format_spec is not None else ast.Constant("")
                elts.append(ast.Tuple([v.value, ast.Constant(v.conversion), spec], ast.Load()))
            else:
                elts.append(v)
        return ast.copy_location(ast.Call(ast.Name(H_FSTR, ast.Load()), [ast.List(elts, ast.Load())], []), node)

    def visit_Call(self, node):
        self.generic_visit(node)
        if isinstance(node.func, ast.Name) and node.func.id in _NO_REWRITE_CALLS:
            return node
        return ast.copy_location(
            ast.Call(ast.Name(H_CALL, ast.Load()), [node.func] + node.args, node.keywords), node)

    def visit_FunctionDef(self, node):
        # decorators and annotations are left as they are; only bodies and defaults are rewritten
        node.body = [self.visit(s) for s in node.body]
        flat = []
        for s in node.body:
            flat.extend(s if isinstance(s, list) else [s])
        node.body = flat
        node.args = self.generic_visit(node.args) if False else node.args
        return node

    visit_AsyncFunctionDef = visit_FunctionDef

    def visit_ClassDef(self, node):
        flat = []
        for s in node.body:
            r = self.visit(s)
            flat.extend(r if isinstance(r, list) else [r])
        node.body = flat
        return node


# ------------------------------------------------------------------------------------------
# helpers injected into every instrumented module
# ------------------------------------------------------------------------------------------
def _int_keys(d):
    return [k for k in list(d) if isinstance(k, (int, SymInt)) and not isinstance(k, bool)]


def resolve_key(d, key):
    """fork over keys equal to the symbolic key; returns the stored key or raises KeyError"""
    for k in _int_keys(d):
        if bool(key == k):
            return k
    raise KeyError("<symbolic key matching no entry>")


def sx_getitem(obj, idx):
    if isinstance(idx, SymInt):
        if isinstance(obj, (bytes, bytearray, tuple, list)):
            return select_table(obj, idx)
        if isinstance(obj, dict):
            return obj[resolve_key(obj, idx)]
        if isinstance(obj, str):
            return obj[idx.__index__()]
    elif isinstance(idx, slice) and isinstance(obj, (bytes, bytearray, str, list, tuple)):
        if any(isinstance(x, SymInt) for x in (idx.start, idx.stop, idx.step)):
            idx = slice(*[x.__index__() if isinstance(x, SymInt) else x for x in (idx.start, idx.stop, idx.step)])
    elif isinstance(idx, (SymStr, SymBytes)) and isinstance(obj, dict):
        for k in list(obj):
            if isinstance(k, (str, bytes)) and bool(idx == k):
                return obj[k]
        raise KeyError("<symbolic>")
    elif isinstance(idx, SymBool):
        idx = bool(idx)
    return obj[idx]


def sx_setitem(obj, idx, val):
    if isinstance(idx, SymInt) and isinstance(obj, dict):
        try:
            idx = resolve_key(obj, idx)
        except KeyError:
            idx = SymKey(idx.e, idx.lo, idx.hi)
    elif isinstance(idx, SymInt) and isinstance(obj, list):
        idx = idx.__index__()
    obj[idx] = val


def sx_delitem(obj, idx):
    if isinstance(idx, SymInt) and isinstance(obj, dict):
        idx = resolve_key(obj, idx)
    del obj[idx]


def sx_in(item, cont):
    if isinstance(item, SymInt):
        if isinstance(cont, (dict, set, frozenset, list, tuple)) or type(cont).__name__ in ("dict_keys", "dict_values"):
            for k in list(cont):
                if isinstance(k, (int, SymInt)) and not isinstance(k, bool):
                    if bool(item == k):
                        return True
            return False
        if isinstance(cont, range):
            return bool((item >= cont.start) & (item < cont.stop)) and (cont.step == 1 or bool((item - cont.start) % cont.step == 0))
        raise Unsupported("SymInt in %s" % type(cont).__name__)
    if isinstance(item, SymStr) and isinstance(cont, str):
        if len(item) == 1:
            return bool(_core_any_eq(item.items[0], [ord(ch) for ch in cont]))
        return SymStr([ord(ch) for ch in cont]).find(item) >= 0
    if isinstance(item, (SymStr, SymBytes)):
        if isinstance(cont, (dict, set, frozenset, list, tuple)):
            for k in list(cont):
                if isinstance(k, (str, bytes, SymStr, SymBytes)) and bool(item == k):
                    return True
            return False
        raise Unsupported("Sym text in %s" % type(cont).__name__)
    if isinstance(item, SymBool):
        item = bool(item)
    if isinstance(cont, (SymBytes, SymStr)):
        return cont.__contains__(item)
    if isinstance(cont, (dict, set, frozenset)) and isinstance(item, int) and not isinstance(item, bool):
        # concrete item, container may hold symbolic keys
        for k in list(cont):
            if isinstance(k, SymInt) and bool(k == item):
                return True
    return item in cont


def sx_not(x):
    return not x


def sx_is(a, c):
    if isinstance(a, SymBool):
        return a if c else ~a
    return a is c


def sx_mod(fmt, args):
    # "..%d.." % sym : render symbolic ints through their __format__/__str__ policy
    def conv(a):
        if isinstance(a, SymInt):
            v = a._fmt_value()
            return v if v is not None else 0
        if isinstance(a, (SymStr, SymBytes)):
            return str(a)
        return a
    if isinstance(args, tuple):
        args = tuple(conv(a) for a in args)
    elif isinstance(args, dict):
        args = {k: conv(v) for k, v in args.items()}
    else:
        args = conv(args)
    return fmt % args


def sx_fstr(parts):
    out = ""
    for p in parts:
        if isinstance(p, (str, SymStr)):
            piece = p
        else:
            val, conv, spec = p
            if conv == 114:
                val = repr(val)
            elif conv == 115:
                val = str(val)
            elif conv == 97:
                val = ascii(val)
            if isinstance(val, SymInt):
                piece = val.__format__(spec if isinstance(spec, str) else str(spec))
            elif isinstance(val, SymStr) and not spec:
                piece = val
            else:
                piece = format(val, spec if isinstance(spec, str) else str(spec))
        out = piece if (isinstance(out, str) and out == "") else out + piece
    return out


def has_sym(x, d=2):
    if isinstance(x, SYM_TYPES):
        return True
    if d and isinstance(x, (list, tuple)):
        return any(has_sym(y, d - 1) for y in x)
    return False


# ---- models of C-level functions ------------------------------------------------------------
_FMT_SIZES = {"B": 1, "H": 2, "I": 4, "L": 4, "Q": 8}


def _parse_fmt(fmt):
    if isinstance(fmt, bytes):
        fmt = fmt.decode()
    if not fmt or fmt[0] not in "!>":
        raise Unsupported("struct fmt " + fmt)
    codes = []
    num = ""
    for c in fmt[1:]:
        if c.isdigit():
            num += c
            continue
        if c not in _FMT_SIZES:
            raise Unsupported("struct fmt " + fmt)
        codes.extend([c] * (int(num) if num else 1))
        num = ""
    return codes


def m_unpack(fmt, data):
    codes = _parse_fmt(fmt)
    need = sum(_FMT_SIZES[c] for c in codes)
    if len(data) != need:
        raise _struct.error("unpack requires a buffer of %d bytes" % need)
    out, p = [], 0
    items = list(data)
    for c in codes:
        n = _FMT_SIZES[c]
        acc = 0
        for b in items[p:p + n]:
            acc = (acc << 8) | b if not isinstance(acc, int) or isinstance(b, SymInt) else (acc << 8) | b
        out.append(acc)
        p += n
    return tuple(out)


def m_pack(fmt, *vals):
    codes = _parse_fmt(fmt)
    if len(codes) != len(vals):
        raise _struct.error("pack expected %d items" % len(codes))
    out = []
    for c, v in zip(codes, vals):
        n = _FMT_SIZES[c]
        if isinstance(v, SymBool):
            v = SymInt.lift(v)
        if isinstance(v, SymInt):
            if v.lo < 0 or v.hi >= 1 << (8 * n):
                if not bool((v >= 0) & (v < (1 << (8 * n)))):
                    raise _struct.error("argument out of range")
                v = SymInt(v.e, max(v.lo, 0), min(v.hi, (1 << (8 * n)) - 1))
            out.extend(list(v.to_bytes(n)))
        else:
            out.extend(_struct.pack("!" + c, v))
    return mkbytes(out)


def m_join(sep, parts):
    parts = list(parts)
    out = []
    for k, p in enumerate(parts):
        if k and len(sep):
            out.extend(list(sep.items if isinstance(sep, (SymBytes, SymStr)) else (sep if isinstance(sep, bytes) else [ord(c) for c in sep])))
        if isinstance(p, (SymBytes, SymStr)):
            out.extend(p.items)
        elif isinstance(p, (bytes, bytearray)):
            out.extend(list(p))
        elif isinstance(p, str):
            out.extend(ord(c) for c in p)
        else:
            raise TypeError("sequence item: expected bytes-like/str")
    if isinstance(sep, (bytes, SymBytes)):
        return mkbytes(out)
    return mkstr(out)


_B64 = b"ABCDEFGHIJKLMNOPQRSTUVWXYZabcdefghijklmnopqrstuvwxyz0123456789+/"


def m_b64encode(data, altchars=None):
    if altchars is not None:
        raise Unsupported("b64 altchars")
    items = list(data)
    out = []
    for i in range(0, len(items), 3):
        chunk = items[i:i + 3]
        pad = 3 - len(chunk)
        chunk = chunk + [0] * pad
        v = (SymInt.lift(chunk[0]) << 16) | (SymInt.lift(chunk[1]) << 8) | chunk[2]
        sext = [(v >> 18) & 63, (v >> 12) & 63, (v >> 6) & 63, v & 63]
        enc = [select_table(_B64, s) if isinstance(s, SymInt) else _B64[s] for s in sext]
        if pad:
            enc[4 - pad:] = [ord("=")] * pad
        out.extend(enc)
    return mkbytes(out)


def m_b2a_base64(data, newline=True):
    out = m_b64encode(data)
    return out + b"\n" if newline else out


def m_encodebytes(data):
    items = list(data)
    out = []
    for i in range(0, len(items), 57):                 # MAXBINSIZE = 57 -> 76 output characters per line
        out.extend(list(m_b2a_base64(mkbytes(items[i:i + 57]))))
    return mkbytes(out)


def _b64_sextet(c):
    """(value, valid) of one base64 alphabet character; symbolic characters are decoded without forking"""
    if isinstance(c, int):
        i = _B64.find(bytes([c]))
        return (i if i >= 0 else 0), i >= 0
    up, lo, dg = (c >= 65) & (c <= 90), (c >= 97) & (c <= 122), (c >= 48) & (c <= 57)
    v = ite(up, c - 65, ite(lo, c - 71, ite(dg, c + 4, ite(c == 43, 62, 63))))
    return v, (up | lo | dg | (c == 43) | (c == 47))


def m_b64decode(data, altchars=None, validate=False):
    if altchars is not None:
        raise Unsupported("b64 altchars")
    items = list(data.items) if isinstance(data, (SymBytes, SymStr)) else [ord(ch) if isinstance(ch, str) else ch for ch in data]
    # strip padding (concrete positions only)
    pad = 0
    while items and isinstance(items[-1], int) and items[-1] == 61:
        items.pop()
        pad += 1
    if (len(items) + pad) % 4:
        raise _binascii.Error("Incorrect padding")
    out = []
    pairs = [_b64_sextet(c) for c in items]
    allvalid = True
    for _, ok in pairs:
        allvalid = ok if allvalid is True else (allvalid & ok)
    if not bool(allvalid):
        raise _binascii.Error("Invalid base64-encoded string")
    vals = [v for v, _ in pairs]
    for i in range(0, len(items), 4):
        grp = vals[i:i + 4]
        n = len(grp)
        grp = grp + [0] * (4 - n)
        v = (SymInt.lift(grp[0]) << 18) | (SymInt.lift(grp[1]) << 12) | (SymInt.lift(grp[2]) << 6) | grp[3]
        bs = [(v >> 16) & 255, (v >> 8) & 255, v & 255]
        out.extend(bs[:n - 1])
    return mkbytes(out)


def _hexval(c):
    if isinstance(c, int):
        try:
            return int(chr(c), 16), True
        except ValueError:
            return 0, False
    dg, lo, up = (c >= 48) & (c <= 57), (c >= 97) & (c <= 102), (c >= 65) & (c <= 70)
    return ite(dg, c - 48, ite(lo, c - 87, c - 55)), (dg | lo | up)


def m_a2b_hex(data):
    items = list(data.items) if isinstance(data, (SymBytes, SymStr)) else [ord(ch) if isinstance(ch, str) else ch for ch in data]
    if len(items) % 2:
        raise _binascii.Error("Odd-length string")
    pairs = [_hexval(c) for c in items]
    allvalid = True
    for _, ok in pairs:
        allvalid = ok if allvalid is True else (allvalid & ok)
    if not bool(allvalid):
        raise _binascii.Error("Non-hexadecimal digit found")
    vals = [v for v, _ in pairs]
    return mkbytes([(SymInt.lift(vals[i]) << 4) | vals[i + 1] for i in range(0, len(vals), 2)])


def m_b2a_hex(data, *a, **k):
    """binascii.b2a_hex / hexlify: two lower-case hex digits per octet (exact, no forking)"""
    if a or k:
        raise Unsupported("b2a_hex with separator")
    items = list(data.items) if isinstance(data, SymBytes) else list(bytes(data))
    out = []
    for b in items:
        b = SymInt.lift(b)
        for nib in ((b >> 4) & 15, b & 15):
            out.append(ite(nib < 10, nib + 48, nib + 87))
    return mkbytes(out)


def m_len(x):
    return len(x)


def m_int(x=0, base=None):
    if isinstance(x, SymInt) and base is None:
        return x
    if isinstance(x, SymBool):
        return SymInt.lift(x)
    if isinstance(x, (SymStr, SymBytes)):
        # decimal text with symbolic digits
        items = x.items
        if base not in (None, 10) or not items:
            raise Unsupported("int(sym text, base)")
        acc = 0
        for it in items:
            if not bool((it >= 48) & (it <= 57)):
                raise ValueError("invalid literal for int() with base 10")
            acc = acc * 10 + (it - 48)
        return acc
    raise Unsupported("int(%s)" % type(x).__name__)


def m_bool(x=False):
    if isinstance(x, SymBool):
        return x
    if isinstance(x, SymInt):
        return x != 0
    return bool(x)


def m_bytes(x=b"", *a):
    if isinstance(x, SymBytes):
        return x
    if isinstance(x, SymArrayB):
        return x.tobytes()
    if isinstance(x, (list, tuple)):
        return mkbytes(list(x))
    if isinstance(x, SymInt):
        return bytes(x.__index__())
    raise Unsupported("bytes(%s)" % type(x).__name__)


def m_bytearray(x=b"", *a):
    # read-only uses only (indexing, bytes(...)): a SymBytes stands in for the bytearray
    if isinstance(x, SymBytes):
        return x
    if isinstance(x, (list, tuple)):
        return mkbytes(list(x))
    raise Unsupported("bytearray(%s)" % type(x).__name__)


def m_ord(c):
    if isinstance(c, (SymStr, SymBytes)) and len(c) == 1:
        return c.items[0]
    return ord(c)


def m_chr(i):
    if isinstance(i, SymInt):
        if not bool((i >= 0) & (i <= 0x10FFFF)):
            raise ValueError("chr() arg not in range(0x110000)")
        return mkstr([i])
    return chr(i)


def m_str(x=""):
    if isinstance(x, SymStr):
        return x
    return str(x)


def m_range(*a):
    return range(*[v.__index__() if isinstance(v, SymInt) else v for v in a])


def m_minmax(f):
    def mm(*a, **kw):
        if kw:
            raise Unsupported("min/max kw")
        vals = list(a[0]) if len(a) == 1 else list(a)
        if all(isinstance(v, (int, SymInt)) for v in vals):
            r = vals[0]
            for v in vals[1:]:
                c = (v < r) if f is min else (v > r)
                r = ite(c, v, r)
            return r
        return f(*a)
    return mm


def m_isinstance(a, t):
    if isinstance(a, SymKey) or isinstance(a, SymInt):
        return isinstance(0, t)
    if isinstance(a, SymBytes):
        return isinstance(b"", t)
    if isinstance(a, SymStr):
        return isinstance("", t)
    if isinstance(a, SymBool):
        return isinstance(True, t)
    return isinstance(a, t)


def m_type(*a):
    if len(a) == 1:
        x = a[0]
        if isinstance(x, SymInt):
            return int
        if isinstance(x, SymBytes):
            return bytes
        if isinstance(x, SymStr):
            return str
        if isinstance(x, SymBool):
            return bool
    return type(*a)


def m_array(tc, data=()):
    if tc == "B":
        if isinstance(data, (bytes, bytearray)):
            data = list(data)
        return SymArrayB(data)
    return _array.array(tc, data)


def m_hash_unsupported(*a, **k):
    raise Unsupported("hash/crypto primitive on symbolic input (not encoded; stub it in the harness)")


MODELS = {
    _struct.unpack: m_unpack,
    _struct.pack: m_pack,
    _base64.b64encode: m_b64encode,
    _base64.b64decode: m_b64decode,
    _base64.encodebytes: m_encodebytes,
    _binascii.b2a_base64: m_b2a_base64,
    _binascii.a2b_hex: m_a2b_hex,
    _binascii.b2a_hex: m_b2a_hex,
    _binascii.hexlify: m_b2a_hex,
    _binascii.unhexlify: m_a2b_hex,
    len: m_len,
    int: m_int,
    bool: m_bool,
    bytes: m_bytes,
    bytearray: m_bytearray,
    ord: m_ord,
    chr: m_chr,
    str: m_str,
    range: m_range,
    min: m_minmax(min),
    max: m_minmax(max),
}

# builtins / types that simply pass symbolic values through (containers, reflection)
_PASS = {iter, next, enumerate, zip, list, tuple, dict, set, print, id, getattr, setattr, hasattr, callable,
         sorted, reversed, sum, any, all, repr, format, map, filter, frozenset, abs, divmod, object, vars}

EXTRA_MODELS = {}    # harness-provided: callable -> model (e.g. hashlib.sha1 -> uninterpreted stub)


def sx_call(f, *args, **kw):
    if f is isinstance:
        return m_isinstance(*args)
    if f is type:
        return m_type(*args)
    if f is _array.array:
        return m_array(*args, **kw)
    if EXTRA_MODELS:
        try:
            m = EXTRA_MODELS.get(f)
        except TypeError:
            m = None
        if m is not None:
            return m(*args, **kw)
    if not (has_sym(args) or (kw and has_sym(list(kw.values())))):
        return f(*args, **kw)
    # ---- at least one symbolic argument ----
    try:
        m = MODELS.get(f)
    except TypeError:
        m = None
    if m is not None:
        return m(*args, **kw)
    if isinstance(f, (types.FunctionType, types.MethodType)):
        return f(*args, **kw)
    if isinstance(f, type):
        if f.__module__ != "builtins":
            return f(*args, **kw)          # python-level class constructor
        if f in (list, tuple, dict, set, frozenset, object):
            return f(*args, **kw)
        if issubclass(f, BaseException):
            return f(*[("<sym>" if is_sym(a) else a) for a in args])
    if isinstance(f, types.BuiltinMethodType) or type(f).__name__ in ("method_descriptor", "builtin_function_or_method", "method-wrapper"):
        slf = getattr(f, "__self__", None)
        name = f.__name__
        if isinstance(slf, dict):
            if name in ("pop", "get", "__contains__", "setdefault") and isinstance(args[0], SymInt):
                try:
                    k = resolve_key(slf, args[0])
                except KeyError:
                    if name == "__contains__":
                        return False
                    if name == "setdefault":
                        k = SymKey(args[0].e, args[0].lo, args[0].hi)
                        return slf.setdefault(k, *args[1:])
                    if len(args) > 1:
                        return args[1]
                    if name == "get":
                        return None
                    raise
                return f(k, *args[1:])
            if name in ("get", "pop", "setdefault", "update", "__setitem__") and not isinstance(args[0], SYM_TYPES):
                return f(*args, **kw)       # symbolic value, concrete key
            if name in ("get", "pop", "__contains__") and isinstance(args[0], (SymStr, SymBytes)):
                for k in list(slf):
                    if isinstance(k, (str, bytes)) and bool(args[0] == k):
                        return f(k, *args[1:])
                if name == "__contains__":
                    return False
                if len(args) > 1:
                    return args[1]
                if name == "get":
                    return None
                raise KeyError("<symbolic>")
        if isinstance(slf, (list, _collections.deque)) and name in ("append", "appendleft", "extend", "extendleft", "insert", "__iadd__"):
            return f(*args, **kw)
        if isinstance(slf, list) and name in ("remove", "index", "count") and isinstance(args[0], SymInt):
            for i, v in enumerate(slf):
                if bool(args[0] == v):
                    if name == "index":
                        return i
                    if name == "remove":
                        del slf[i]
                        return None
            if name == "count":
                raise Unsupported("list.count(sym)")
            raise ValueError("x not in list")
        if isinstance(slf, (bytes, bytearray)) and name == "join":
            return m_join(slf, *args)
        if isinstance(slf, str) and name == "join":
            return m_join(slf, *args)
        if isinstance(slf, str) and name in ("find", "startswith", "endswith", "__contains__", "split", "count") and isinstance(args[0], SymStr):
            return getattr(SymStr([ord(ch) for ch in slf]), name)(*args)
        if isinstance(slf, str) and name == "format":
            return f(*args, **kw)           # goes through __format__ of the proxies
        if isinstance(slf, (set,)) and name in ("add", "discard", "remove"):
            raise Unsupported("set.%s(sym)" % name)
        if slf is None or isinstance(slf, types.ModuleType):
            if f in _PASS:
                return f(*args, **kw)
        if isinstance(slf, bytes) and name in ("startswith", "endswith", "find") and isinstance(args[0], SymBytes):
            return getattr(SymBytes(list(slf)), name)(*args)
        if isinstance(slf, bytes) and name == "__add__":
            return f(*args)
        if name == "to_bytes" and isinstance(slf, int):
            return f(*[a.__index__() if isinstance(a, SymInt) else a for a in args], **kw)
    if f in _PASS:
        return f(*args, **kw)
    oc = getattr(f, "__objclass__", None)
    if oc is not None and isinstance(oc, type) and issubclass(oc, BaseException) and getattr(f, "__name__", "") == "__init__":
        return f(*args, **kw)               # exception constructors only store their arguments
    if callable(f) and not isinstance(f, (types.BuiltinFunctionType, types.BuiltinMethodType, type)) \
            and type(f).__module__ != "builtins":
        return f(*args, **kw)               # python-level callable object (partial, Deferred methods...)
    raise Unsupported("call %r with symbolic argument has no model" % (getattr(f, "__qualname__", f),))


HELPERS = {H_FSTR: sx_fstr, H_CALL: sx_call, H_GET: sx_getitem, H_SET: sx_setitem, H_DEL: sx_delitem, H_IN: sx_in,
           H_NOT: sx_not, H_IS: sx_is, H_MOD: sx_mod}


# ------------------------------------------------------------------------------------------
# import hook
# ------------------------------------------------------------------------------------------
PLAIN_PREFIXES = ("autobahn.wamp.gen", "autobahn._version", "autobahn.wamp.flatbuffers",
                  "autobahn.xbr")

SOURCES_READ = {}    # module name -> (path, sha1) : evidence of what was encoded


CODE_CACHE = {}   # (path, sha1 of source) -> instrumented code object; filled in the parent, inherited by forked units


def compile_instrumented(src, path):
    tree = ast.parse(src, path)
    tree = Instr().visit(tree)
    ast.fix_missing_locations(tree)
    return compile(tree, path, "exec", dont_inherit=True)


def precompile(prefixes=("autobahn",), skip_dirs=("test", "testutil", "xbr", "gen", "flatbuffers")):
    """instrument + compile (not execute) the working tree's modules once in the parent process, so that
    forked work units only exec them.  Regenerated from the current sources on every run (no disk cache)."""
    import hashlib
    n = 0
    for pref in prefixes:
        root = os.path.join(REPO_SRC, pref.replace(".", "/"))
        for dp, dn, fn in os.walk(root):
            dn[:] = [d for d in dn if d not in skip_dirs and not d.startswith("__")]
            for f in fn:
                if f.endswith(".py"):
                    p = os.path.join(dp, f)
                    src = open(p, "rb").read()
                    try:
                        CODE_CACHE[(p, hashlib.sha1(src).hexdigest())] = compile_instrumented(src, p)
                        n += 1
                    except SyntaxError:
                        pass
    return n


class _Loader(importlib.abc.Loader):
    def __init__(self, fullname, path, is_pkg):
        self.fullname, self.path, self.is_pkg = fullname, path, is_pkg

    def create_module(self, spec):
        return None

    def exec_module(self, module):
        import hashlib
        src = open(self.path, "rb").read()
        sha = hashlib.sha1(src).hexdigest()
        SOURCES_READ[self.fullname] = (self.path, sha)
        code = CODE_CACHE.get((self.path, sha))
        if code is None:
            code = compile_instrumented(src, self.path)
            CODE_CACHE[(self.path, sha)] = code
        module.__dict__.update(HELPERS)
        exec(code, module.__dict__)


class _Finder(importlib.abc.MetaPathFinder):
    def find_spec(self, fullname, path, target=None):
        if fullname != "autobahn" and not fullname.startswith("autobahn."):
            return None
        if any(fullname == p or fullname.startswith(p + ".") for p in PLAIN_PREFIXES):
            return None
        rel = fullname.replace(".", "/")
        pkg = os.path.join(REPO_SRC, rel, "__init__.py")
        mod = os.path.join(REPO_SRC, rel + ".py")
        if os.path.isfile(pkg):
            spec = importlib.machinery.ModuleSpec(fullname, _Loader(fullname, pkg, True), origin=pkg, is_package=True)
            spec.submodule_search_locations = [os.path.join(REPO_SRC, rel)]
            spec.has_location = True
            return spec
        if os.path.isfile(mod):
            spec = importlib.machinery.ModuleSpec(fullname, _Loader(fullname, mod, False), origin=mod)
            spec.has_location = True
            return spec
        return None


_installed = False


def install():
    """serve autobahn.* instrumented from the working tree; must run before autobahn is imported"""
    global _installed
    if _installed:
        return
    if any(m == "autobahn" or m.startswith("autobahn.") for m in sys.modules):
        raise RuntimeError("autobahn already imported before symx.instr.install()")
    os.environ.setdefault("AUTOBAHN_USE_NVX", "0")
    sys.meta_path.insert(0, _Finder())
    if REPO_SRC not in sys.path:
        sys.path.insert(0, REPO_SRC)
    _installed = True


def install_plain():
    """plain (uninstrumented) import of the working tree: used by replay and differential runs"""
    os.environ.setdefault("AUTOBAHN_USE_NVX", "0")
    if REPO_SRC not in sys.path:
        sys.path.insert(0, REPO_SRC)
