"""C10  Every invocation gets exactly one terminal reply."""
import os
from . import wamplib
from . import transports

PID = "C10"
FUNCTIONS = [
    "autobahn.wamp.protocol: ApplicationSession.onMessage Invocation branch (success / error / progress continuations), Interrupt branch",
    "autobahn.wamp.protocol: BaseSession._message_from_exception",
    "autobahn.wamp.websocket: WampWebSocketProtocol.send (+ autobahn.websocket.protocol sendMessage size check)",
    "autobahn.twisted.rawsocket: WampRawSocketProtocol.send / Int32StringReceiver.sendString",
    "autobahn.asyncio.rawsocket: WampRawSocketMixinGeneral.send / PrefixProtocol.sendString",
    "autobahn.wamp.serializer: Serializer.serialize (exception classification), JsonObjectSerializer",
]
STUBS = ["session-level units: recording ITransport; transport-level units: the real transport object on a fake lower transport (real handshake code)",
         "json codec runs for real on concrete data (C library): request ids are concrete in transport-level units, free integers in session-level units",
         "loggers -> empty bodies"]
ASSUMPTIONS = [
    "endpoint behaviours from a menu; INTERRUPT at the positions where the endpoint result is still pending",
    "asyncio WebSocket adapter needs a running event loop for its receive queue: the WebSocket transport is checked on Twisted, RawSocket on both frameworks",
    "the negotiated/ configured send limit is a free value (RawSocket: the peer's exponent octet, all 16 values; WebSocket: maxMessagePayloadSize free integer)",
]
BOUNDS = {
    "quick": "1-2 concurrent invocations x 12 endpoint behaviours x receive_progress on/off x INTERRUPT yes/no (mode free), free request ids (0..2^53, distinct); 5 transports x {serialisable, un-serialisable, oversize vs a free limit} x {value, raised error}",
    "thorough": "as quick plus all 144 ordered pairs of endpoint behaviours with and without INTERRUPT, and 80 triples of concurrent invocations (pending x {value, error, progress, pending} x pending) with INTERRUPT",
}
EXPECT_COVERS = ["reply:yield", "reply:error", "reply:progress", "interrupt", "t:invalid_payload", "t:payload_size_exceeded", "t:sent"]
BUDGET = {"quick": dict(wall_s=300, max_paths=30000, diff_samples=4), "thorough": dict(wall_s=2400, max_paths=300000)}
KNOWN = {}

BEHAVIOURS = ["value", "callresult", "none", "apperror", "runtimeerror", "registered-exc", "pending-resolve", "pending-fail", "pending-interrupt",
              "progress", "pending-callresult", "raise-in-async"]


class MyError(Exception):
    pass


def _endpoint(beh, store, idx):
    from twisted.internet.defer import Deferred
    from autobahn.wamp.exception import ApplicationError
    from autobahn.wamp.types import CallResult

    def ep(*args, **kwargs):
        store["seen"].append((idx, args, dict(kwargs)))
        det = kwargs.get("details")
        if beh == "value":
            return 42
        if beh == "callresult":
            return CallResult(1, 2, k=3)
        if beh == "none":
            return None
        if beh == "apperror":
            raise ApplicationError("com.myapp.error.custom", 1, k=2)
        if beh == "runtimeerror":
            raise RuntimeError("boom")
        if beh == "registered-exc":
            raise MyError("mine", 5)
        if beh in ("pending-resolve", "pending-fail", "pending-interrupt", "pending-callresult"):
            d = Deferred()
            store["pending"][idx] = d
            return d
        if beh == "raise-in-async":
            d = Deferred()
            d.errback(RuntimeError("async boom"))
            return d
        if beh == "progress":
            if det is not None and det.progress is not None:
                det.progress(1)
                det.progress(2, k=1)
            return 3
    return ep


def invoke(sx, behs, recv_progress, interrupt):
    """session-level: terminal replies per invocation request id"""
    from autobahn.wamp import message, types
    from autobahn.wamp.exception import ProtocolError
    clock, trace, s, t = wamplib.joined_session(sx)
    s.define(MyError, "com.myapp.error.mine")
    store = dict(seen=[], pending={})
    rids = []
    for i, beh in enumerate(behs):
        opts = types.RegisterOptions(details_arg="details")
        d = s.register(_endpoint(beh, store, i), "com.myapp.proc%d" % i, options=opts)
        s.onMessage(message.Registered(t.sent[-1].request, 600 + i))
    base = len(t.sent)
    for i, beh in enumerate(behs):
        rid = sx.int("inv%d" % i, 1, 2 ** 53)
        for r in rids:
            sx.assume(rid != r)
        rids.append(rid)
        try:
            s.onMessage(message.Invocation(rid, 600 + i, args=[10 + i, "a"], kwargs={"x": i}, receive_progress=recv_progress, caller=99))
        except Exception as e:  # noqa
            sx.fail("exception-escapes-onMessage(INVOCATION)", info=repr(e))
            return ["exc"]
    # pending endpoints: resolve / fail / interrupt
    for i, beh in enumerate(behs):
        d = store["pending"].get(i)
        if d is None:
            continue
        if beh == "pending-interrupt" or interrupt:
            mode = [None, "kill", "killnowait"][sx.choice("imode%d" % i, 3)]
            s.onMessage(message.Interrupt(rids[i], mode=mode))
            sx.cover("interrupt")
            # a duplicate INTERRUPT and a late result from the endpoint must not produce a second reply
            s.onMessage(message.Interrupt(rids[i]))
            if not d.called:
                d.callback("late")
        elif beh == "pending-resolve":
            d.callback("later")
        elif beh == "pending-callresult":
            d.callback(types.CallResult(7, z=1))
        else:
            d.errback(RuntimeError("failed later"))
    replies = t.sent[base:]
    info = dict(behs=behs, recv_progress=recv_progress, interrupt=interrupt)
    for i, beh in enumerate(behs):
        mine = [m for m in replies if isinstance(m, (message.Yield, message.Error)) and bool(m.request == rids[i])]
        term = [m for m in mine if isinstance(m, message.Error) or not m.progress]
        prog = [m for m in mine if isinstance(m, message.Yield) and m.progress]
        inf = dict(info, idx=i, beh=beh, kinds=[type(m).__name__ for m in mine])
        sx.check(len(term) == 1, "exactly-one-terminal-reply-per-invocation", info=inf)
        if not term:
            continue
        tm = term[0]
        pos = {id(m): k for k, m in enumerate(mine)}       # Yield.__eq__ compares nothing: use identity
        sx.check(all(pos[id(p)] < pos[id(tm)] for p in prog), "progress-only-before-terminal-reply", info=inf)
        if beh == "progress" and recv_progress:
            sx.check(len(prog) == 2 and list(prog[0].args) == [1] and list(prog[1].args) == [2] and prog[1].kwargs == {"k": 1}, "progressive-yields-as-emitted", info=inf)
            sx.cover("reply:progress")
        else:
            sx.check(len(prog) == 0, "no-progress-unless-requested", info=inf)
        interrupted = (beh == "pending-interrupt") or (interrupt and beh.startswith("pending-"))
        want_err = beh in ("apperror", "runtimeerror", "registered-exc", "pending-fail", "raise-in-async") or interrupted
        if want_err:
            sx.check(isinstance(tm, message.Error) and tm.request_type == message.Invocation.MESSAGE_TYPE, "error-reply", info=inf)
            if isinstance(tm, message.Error):
                if beh == "apperror":
                    sx.check(tm.error == "com.myapp.error.custom" and list(tm.args) == [1] and tm.kwargs == {"k": 2}, "application-error-carried", info=inf)
                elif beh == "registered-exc":
                    sx.check(tm.error == "com.myapp.error.mine" and list(tm.args) == ["mine", 5], "registered-exception-uri", info=inf)
                elif beh in ("runtimeerror", "pending-fail", "raise-in-async") and not interrupted:
                    sx.check(tm.error == "wamp.error.runtime_error", "runtime-error-uri", info=inf)
            sx.cover("reply:error")
        else:
            sx.check(isinstance(tm, message.Yield), "yield-reply", info=inf)
            if isinstance(tm, message.Yield):
                exp = {"value": ([42], None), "callresult": ([1, 2], {"k": 3}), "none": ([None], None), "pending-resolve": (["later"], None),
                       "progress": ([3], None), "pending-callresult": ([7], {"z": 1})}[beh]
                sx.check(list(tm.args or []) == exp[0] and (tm.kwargs or None) == exp[1], "yield-carries-the-return-value", info=dict(inf, got=(tm.args, tm.kwargs)))
            sx.cover("reply:yield")
    # the endpoint saw exactly the caller's arguments plus the requested details
    for (i, a, k) in store["seen"]:
        det = k.pop("details", None)
        sx.check(tuple(a) == (10 + i, "a") and k == {"x": i}, "endpoint-got-callers-args-kwargs", info=dict(info, idx=i))
        sx.check(det is not None and det.caller == 99 and (det.progress is not None) == recv_progress, "endpoint-got-call-details", info=dict(info, idx=i))
    sx.check(sorted(x[0] for x in store["seen"]) == list(range(len(behs))), "each-endpoint-invoked-once", info=info)
    # stray replies for other ids
    other = [m for m in replies if isinstance(m, (message.Yield, message.Error)) and not any(bool(m.request == r) for r in rids)]
    sx.check(len(other) == 0, "no-reply-for-foreign-request-id", info=info)
    return [[type(m).__name__ for m in replies]]


class Unserialisable:
    pass


def transport_send(sx, kind, payload_kind, via):
    """the same guarantee on the real transports: un-serialisable -> wamp.error.invalid_payload,
    over the (free) size limit -> wamp.error.payload_size_exceeded, otherwise the YIELD / ERROR itself"""
    from autobahn.wamp import message, role, types
    from autobahn.wamp.exception import ApplicationError
    from symx.env import Trace, NULLLOG
    trace = Trace()
    aio = kind.startswith("aio")
    if aio:
        loop = transports.aio_setup()
        from autobahn.asyncio.wamp import ApplicationSession as Sess
    else:
        from autobahn.twisted.wamp import ApplicationSession as Sess
    big = "y" * 700

    def ep(*a, **k):
        val = {"ok": "fine", "unserialisable": Unserialisable(), "oversize": big}[payload_kind]
        if via == "raise":
            raise ApplicationError("com.myapp.error.e", val)
        return val

    class S(Sess):
        log = NULLLOG

        def onUserError(self, fail, msg):
            pass

    sess = []

    def factory():
        s = S(types.ComponentConfig("realm1"))
        s.log = NULLLOG
        sess.append(s)
        return s

    if kind.startswith("tw-ws"):
        h = transports.attach(kind, sx, trace, factory)
        # maxMessagePayloadSize bounds both directions: keep it above the size of the set-up traffic (WELCOME ~ 250 octets)
        lim = 0 if sx.flag("ws-unlimited") else sx.int("wslimit", 400, 4096)
        h.set_send_limit(lim)
        limit = lim
        no_limit = not sx.is_sym(lim) and lim == 0
    else:
        lexp = sx.int("lexp", 0, 15)
        h = transports.attach(kind, sx, trace, factory, peer_lexp=lexp)
        limit = 2 ** (9 + (lexp.__index__() if hasattr(lexp, "e") else lexp))
        no_limit = False
    s = h.session
    info = dict(kind=kind, payload=payload_kind, via=via)
    sx.check(s is not None, "session-attached", info=info)
    if s is None:
        return ["no-session"]
    roles = {"broker": role.RoleBrokerFeatures(), "dealer": role.RoleDealerFeatures()}
    h.sent()
    # keep the set-up traffic (HELLO / REGISTER) out of the limit question: it is sent before the limit bites only if small enough
    try:
        h.feed(message.Welcome(1234, roles))
        s.register(ep, "com.myapp.proc")
        if aio:
            transports.run_loop_once(loop)
        reg = [m for m in h.sent() if isinstance(m, message.Register)]
        if not reg:
            return ["setup-over-limit"]
        h.feed(message.Registered(reg[0].request, 600))
        h.feed(message.Invocation(777, 600, args=[1]))
        if aio:
            transports.run_loop_once(loop)
    except Exception as e:  # noqa
        sx.fail("exception-escapes-transport-receive-path", info=dict(info, exc=repr(e)))
        return ["exc"]
    out = [m for m in h.sent() if isinstance(m, (message.Yield, message.Error))]
    mine = [m for m in out if m.request == 777]
    sx.check(len(mine) == 1, "exactly-one-terminal-reply-on-the-wire", info=dict(info, got=[type(m).__name__ for m in out], limit=limit))
    if len(mine) != 1:
        return ["count", len(mine)]
    m = mine[0]
    size_ok_len = 80 if payload_kind != "oversize" else 760
    over = (not no_limit) and bool(limit < size_ok_len) if payload_kind == "oversize" else False
    if payload_kind == "unserialisable":
        sx.check(isinstance(m, message.Error) and m.error == "wamp.error.invalid_payload", "unserialisable=>ERROR-invalid_payload", info=info)
        sx.cover("t:invalid_payload")
    elif payload_kind == "oversize" and (not no_limit) and bool(limit <= 700):
        sx.check(isinstance(m, message.Error) and m.error == "wamp.error.payload_size_exceeded", "oversize=>ERROR-payload_size_exceeded", info=dict(info, limit=limit))
        sx.cover("t:payload_size_exceeded")
    elif payload_kind == "ok" or no_limit or bool(limit >= 1024):
        if via == "raise":
            sx.check(isinstance(m, message.Error) and m.error == "com.myapp.error.e", "raised-error-sent-as-is", info=info)
        else:
            sx.check(isinstance(m, message.Yield), "value-sent-as-YIELD", info=info)
        sx.cover("t:sent")
    return [type(m).__name__, getattr(m, "error", None)]


def units(tier):
    U = []
    q = tier == "quick"
    singles = [[b] for b in BEHAVIOURS]
    pairs = [["pending-resolve", "value"], ["pending-interrupt", "pending-resolve"], ["pending-fail", "progress"], ["apperror", "pending-callresult"],
             ["pending-resolve", "pending-resolve"]]
    for behs in singles + pairs:
        for rp in (False, True):
            for intr in (False, True):
                if intr and not any(b.startswith("pending-") for b in behs):
                    continue
                U.append(("inv/%s/%s/%s" % ("+".join(behs), "prog" if rp else "-", "intr" if intr else "-"), "invoke",
                          dict(behs=behs, recv_progress=rp, interrupt=intr)))
    if not q:
        import itertools
        seen = {tuple(b) for b in singles + pairs}
        for a, b in itertools.product(BEHAVIOURS, BEHAVIOURS):
            if (a, b) in seen:
                continue
            for intr in (False, True):
                if intr and not (a.startswith("pending-") or b.startswith("pending-")):
                    continue
                U.append(("inv2/%s+%s/%s" % (a, b, "intr" if intr else "-"), "invoke", dict(behs=[a, b], recv_progress=True, interrupt=intr)))
        pend = [b for b in BEHAVIOURS if b.startswith("pending-")]
        for a, b, c in itertools.product(pend, ["value", "apperror", "progress", "pending-resolve"], pend + ["raise-in-async"]):
            U.append(("inv3/%s+%s+%s" % (a, b, c), "invoke", dict(behs=[a, b, c], recv_progress=True, interrupt=True)))
    for kind in ("tw-ws-client", "tw-ws-server", "tw-raw-client", "tw-raw-server", "aio-raw-client", "aio-raw-server"):
        for pk in ("ok", "unserialisable", "oversize"):
            for via in ("return", "raise"):
                extra = dict(framework="asyncio") if kind.startswith("aio") else {}
                U.append(("tx/%s/%s/%s" % (kind, pk, via), "transport_send", dict(kind=kind, payload_kind=pk, via=via), dict(weight=3, **extra)))
    return U
