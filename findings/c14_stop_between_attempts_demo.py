"""C14 genuine defect: Component.stop() called after a failed connection attempt but before the reconnect loop is re-entered
(it is re-entered through call_later(0, ...); e.g. stop() from a 'connectfailure' listener) completes start() - and then the
component connects again anyway; when no attempts are left the re-entry crashes with AttributeError (reject(None)).
Run: /venv/bin/python findings/c14_stop_between_attempts_demo.py [tree]"""
import sys
sys.path.insert(0, (sys.argv[1] if len(sys.argv) > 1 else "/repo") + "/src")
import txaio
txaio.use_twisted()
from twisted.internet.task import Clock
from twisted.internet.defer import Deferred
from twisted.internet.interfaces import IStreamClientEndpoint
from twisted.internet.error import ConnectionRefusedError
from twisted.python.failure import Failure
from zope.interface import implementer
from autobahn.twisted.component import Component

clock = Clock()
txaio.config.loop = clock
connects = []


@implementer(IStreamClientEndpoint)
class Ep:
    def connect(self, factory):
        d = Deferred()
        connects.append((clock.seconds(), d))
        return d


bad = 0
for retries in (3, 0):
    del connects[:]
    comp = Component(transports=[dict(type="rawsocket", url="rs://localhost:9000", endpoint=Ep(), serializer="json", max_retries=retries, initial_retry_delay=1.0, max_retry_delay=4.0)], realm="realm1")
    comp.on("connectfailure", lambda c, e: comp.stop())
    result = []
    comp.start(reactor=clock).addCallbacks(lambda r: result.append("ok"), lambda f: result.append("err"))
    clock.advance(0)
    connects[0][1].errback(Failure(ConnectionRefusedError()))     # first attempt refused -> listener calls stop()
    n1 = len(connects)
    try:
        for _ in range(20):
            clock.advance(0.5)
        crash = None
    except Exception as e:
        crash = repr(e)
    print("max_retries=%d: start() result %s, connection attempts after stop(): %d, exception from the reactor call: %s" % (retries, result, len(connects) - n1, crash))
    if result != ["ok"] or len(connects) != n1 or crash:
        bad += 1
sys.exit(1 if bad else 0)
