"""C05  WebSocket connections close exactly once, in order, and in bounded time."""
from . import wslib
from .c09 import ref_step, S0, REJ

PID = "C05"
FUNCTIONS = [
    "autobahn.websocket.protocol: WebSocketProtocol.sendClose / sendCloseFrame / onCloseFrame / processControlFrame(close)",
    "autobahn.websocket.protocol: _fail_connection / _protocol_violation / dropConnection / _connectionLost",
    "autobahn.websocket.protocol: onCloseHandshakeTimeout / onServerConnectionDropTimeout / onOpenHandshakeTimeout",
    "autobahn.websocket.protocol: sendMessage / sendPing / sendPong / beginMessage (state guards)",
    "autobahn.util: encode_truncate",
    "autobahn.twisted.websocket: WebSocketAdapterProtocol.connectionLost / _closeConnection / dataReceived",
]
STUBS = ["frame mask keys fixed (random.getrandbits -> constant; masking is decided in C15)", "transport -> recording object", "reactor/txaio.call_later/batched timer -> twisted Clock (virtual time)", "random.getrandbits -> fresh variable", "loggers -> empty bodies"]
ASSUMPTIONS = [
    "events are injected between reactor turns (the library is single-threaded): each event runs to completion before the next",
    "hixie / websocket_version == 0 branches and TLS-reason formatting are outside the claim",
    "timer granularity: the txaio batched timer rounds deadlines up to 0.2 s buckets; 'in bounded time' is asserted with that slack (+0.25 s)",
]
BOUNDS = {
    "quick": "event sequences of length 3 when the first event starts closing (local close / peer close / peer violation), length 2 otherwise, over 10 event kinds (local sendClose with free 16-bit code and 4 reason shapes, local send/ping, peer close with free 16-bit status + free reason octet / empty / 1-octet, peer data, peer ping, peer violation, fire next timer, peer TCP drop, delivery of our own drop), both roles, failByDrop on/off, echoCloseCodeReason on/off; encode_truncate: all strings of <= 3 free code points (0..0x10FFFF) with every limit 0..12, plus a 121-octet ASCII prefix with limit 123; 'tick' (0.75 s pass without landing on a deadline) and 'layerFail' (an upper layer fails the connection with a reason of 0/120..123/200 ASCII octets + a free code point) events in dedicated units (tick/, layerfail/); asyncio adapter on a virtual-time loop (aio/ units, sequences of 2)",
    "thorough": "sequences of length <= 4, closeHandshakeTimeout/serverConnectionDropTimeout in {0,1,2}; encode_truncate <= 4 code points",
}
EXPECT_COVERS = ["fail:layer", "end:clean", "end:unclean", "close:local", "close:peer", "timer:fired", "trunc:cut", "trunc:whole"]
BUDGET = {"quick": dict(wall_s=400, max_paths=40000, diff_samples=4), "thorough": dict(wall_s=3000, max_paths=600000)}

RANK = {1: 0, 4: 0, 3: 1, 2: 2, 0: 3}      # CONNECTING/PROXY < OPEN < CLOSING < CLOSED
EVENTS = ["sendClose", "send", "ping", "peerClose", "peerData", "peerPing", "peerViolation", "timer", "peerDrop", "ownDrop", "tick", "layerFail"]
NEXT = 2            # events beyond the default alphabet (units with ext=True draw from all of them)
TICK = 0.75        # "tick": time passes without reaching the next deadline exactly (a timer that is due within the tick fires)
# inner menus: in sequence runs codes come from small menus (free within a legal range); the full 16-bit code space is explored by the dedicated `codes` units
LEGAL_CODES = [1000, 1001, 1002, 1003, 1007, 1008, 1009, 1010, 1011, 1012, 1013]


def _utf8_valid(sx, bs):
    s = S0
    for b in bs:
        s2 = ref_step(sx, s, b)
        if bool(s2 == REJ):
            return False
        s = s2.__index__() if hasattr(s2, "e") else s2
    return s == S0


LAST_Q = ["sendClose", "send", "peerClose", "peerData", "peerViolation", "timer", "peerDrop", "ownDrop"]


def lifecycle(sx, server, fbd, echo, first, K, tmo, full=False, second=None, quick=False, fw="twisted", ext=False):
    from twisted.python.failure import Failure
    from twisted.internet.error import ConnectionDone, ConnectionLost
    from autobahn.exception import Disconnected
    opts = dict(failByDrop=fbd, echoCloseCodeReason=echo, closeHandshakeTimeout=tmo[0])
    if not server:
        opts["serverConnectionDropTimeout"] = tmo[1]
    clock, trace, ep, rnd = wslib.open_one(sx, server, opts, fixed_rnd=True, fw=fw)
    p, t, who = ep.p, ep.t, ep.who
    mask = (lambda k: sx.bytes("mk%d" % k, 4)) if server else (lambda k: None)
    ranks = [RANK[p.state]]
    lost = [False]
    peer_close = []        # (code, reason) of peer close frames we injected while they could be processed
    t_closing = [None]
    pc_valid = []
    t_reply = [None]       # when the peer's close frame arrived while we were already closing
    log = []
    queued_used = []     # steps at which octets were parked on the synced send queue

    def own_lost(reason):
        if not lost[0]:
            lost[0] = True
            trace.append((who, "LOST"))
            wslib.lost(ep, fw, clean=isinstance(reason, ConnectionDone))

    def note_state():
        r = RANK[p.state]
        ranks.append(r)
        if r >= 2 and t_closing[0] is None:
            t_closing[0] = clock.seconds()

    full_all = full
    for step in range(K):
        full = full_all and step == 0       # the free 16-bit code / free reason octets belong to the first event
        if step == 0:
            ev = EVENTS.index(first)
        elif step == 1 and second is not None:
            ev = EVENTS.index(second)
        elif quick and step == K - 1:
            # last step of the quick tier: the events that can still change the outcome
            ev = EVENTS.index(LAST_Q[sx.choice("ev%d" % step, len(LAST_Q))])
        else:
            ev = sx.choice("ev%d" % step, len(EVENTS) if ext else len(EVENTS) - NEXT)
        name = EVENTS[ev]
        var = 0
        log.append(name)
        if lost[0] and name in ("peerClose", "peerData", "peerPing", "peerViolation", "peerDrop", "ownDrop"):
            continue            # the transport is gone: the peer cannot deliver anything any more
        try:
            if name == "sendClose":
                shape = sx.choice("reasonShape%d" % step, 4 if full else 3)
                if full:
                    code = sx.int("code%d" % step, 0, 65535)
                else:
                    code = sx.int("code%d" % step, 3000, 4999)
                if shape == 0:
                    p.sendClose()
                elif shape == 1:
                    p.sendClose(1000 if not full else code, "bye")
                elif shape == 2 and not full:
                    p.sendClose(code, "x" * 121 + "\u00e9y")         # truncation inside a 2-octet code point
                elif shape == 2:
                    ch = sx.str("rs%d" % step, 1, 0x20, 0x10FFFF)
                    cp0 = ch.items[0] if sx.is_sym(ch) else ord(ch)
                    sx.assume(sx.Not(sx.And(cp0 >= 0xD800, cp0 <= 0xDFFF)))     # lone surrogates are not text
                    p.sendClose(code, "x" * 121 + ch + "y")
                else:
                    p.sendClose(code)
                sx.cover("close:local")
            elif name == "send":
                # plain, or through the synced / chopped send queue (octets then leave with the reactor's next turns - possibly after a close)
                var = sx.choice("sendVar%d" % step, 3)
                try:
                    if var == 0:
                        p.sendMessage(b"data", isBinary=True)
                    elif var == 1:
                        p.sendMessage(b"sync1", isBinary=True, sync=True)
                        p.sendMessage(b"sync2", isBinary=True, sync=True)
                    else:
                        p.sendMessage(b"fragmented-sync", isBinary=True, fragmentSize=4, sync=True)
                        p.sendMessage(b"after", isBinary=True)
                except Disconnected:
                    pass
            elif name == "ping":
                p.sendPing(b"p")
            elif name == "peerClose":
                shape = sx.choice("pcShape%d" % step, 4 if full else 3)
                if shape == 0:
                    pl = b""
                    pc = (None, None)
                elif shape == 1:
                    if full:
                        pl = sx.bytes("pc%d" % step, 2)
                    else:
                        cc = sx.int("pc%d" % step, 3000, 4999)
                        pl = wslib._mk([cc >> 8, cc & 255])
                    pc = ((pl[0] << 8) | pl[1], None)
                elif shape == 2:
                    pl = b"\x03\xe8ok\xc3\xa9"
                    pc = (1000, pl[2:])
                else:
                    pl = sx.bytes("pc%d" % step, 2) + b"ok" + sx.bytes("pr%d" % step, 1)
                    pc = ((pl[0] << 8) | pl[1], pl[2:])
                if p.state in (p.STATE_OPEN, p.STATE_CLOSING):
                    peer_close.append(pc)
                    pv = True
                    if pc[0] is not None:
                        pv = bool(sx.Or(*([pc[0] == k for k in LEGAL_CODES] + [sx.And(pc[0] >= 3000, pc[0] <= 4999)])))
                    if pv and pc[1] is not None:
                        pv = _utf8_valid(sx, pc[1])
                    pc_valid.append(pv)
                    if p.state == p.STATE_CLOSING and t_reply[0] is None and p.closedByMe:
                        t_reply[0] = clock.seconds()          # the reply to OUR close frame (a repeated close frame of a peer that closed first is no reply)
                p.dataReceived(wslib.build_frame(8, pl, mask=mask(step)))
                sx.cover("close:peer")
            elif name == "peerData":
                p.dataReceived(wslib.build_frame(1, b"hi", mask=mask(step)))
            elif name == "peerPing":
                p.dataReceived(wslib.build_frame(9, b"q", mask=mask(step)))
            elif name == "peerViolation":
                p.dataReceived(wslib.build_frame(3, b"", mask=mask(step)))
            elif name == "timer":
                calls = [c for c in clock.getDelayedCalls()]
                if calls:
                    nxt = min(c.getTime() for c in calls)
                    clock.advance(max(0.0, nxt - clock.seconds()) + 0.0001)
                    sx.cover("timer:fired")
            elif name == "tick":
                clock.advance(TICK)
            elif name == "layerFail":
                # a layer on top (WAMP-over-WebSocket _bailout, the client's failing onConnect, WrappingWebSocket) fails the connection with
                # its own, arbitrarily long reason text: free length around the 123-octet limit, free code point at the cut
                Ls = [0, 120, 121, 122, 123, 200]
                L = Ls[sx.choice("lfLen%d" % step, len(Ls))]
                ch = sx.str("lf%d" % step, 1, 0x20, 0x10FFFF)
                cp0 = ch.items[0] if sx.is_sym(ch) else ord(ch)
                sx.assume(sx.Not(sx.And(cp0 >= 0xD800, cp0 <= 0xDFFF)))
                codes = [1002, 3000]
                p._fail_connection(codes[sx.choice("lfCode%d" % step, len(codes))], "x" * L + ch + "yz")
                sx.cover("fail:layer")
            elif name == "peerDrop":
                own_lost(ConnectionLost())
            elif name == "ownDrop":
                if t.closed is not None:
                    own_lost(ConnectionDone())
        except Exception as e:  # noqa
            # documented argument errors of sendClose are fine; anything else must not escape
            if name == "sendClose" and type(e) is Exception:
                pass
            else:
                sx.fail("unexpected-exception", info="%s in %s: %r" % (type(e).__name__, name, e))
                return ["exc"]
        if name == "send" and var != 0:
            queued_used.append(step)
        if not (name == "send" and var != 0):
            # events are separated by reactor turns - except that octets parked on the synced send queue are still waiting when the next
            # event happens (the queue drains with 10 microsecond timer calls)
            wslib.drain(clock)
        note_state()
    info = dict(events=log, server=server, fbd=fbd, echo=echo, fw=fw)
    # ---- bounded-time: once closing began, CLOSED is reached within the configured timeouts
    #   we closed first, no reply yet      : closeHandshakeTimeout after our close frame
    #   we closed first, peer replied      : server drops at once; client waits serverConnectionDropTimeout after the reply
    #   peer closed first, we replied      : server drops at once; client waits serverConnectionDropTimeout after its reply
    SLACK = 0.25            # batched-timer bucket (0.2 s)
    if p.state == p.STATE_CLOSING and not lost[0]:
        if not all(pc_valid) or "peerViolation" in log:
            # failure paths (invalid peer close payloads, violations while closing): only the overall bound is claimed
            deadline = t_closing[0] + tmo[0] + (tmo[1] if not server else 0) + 2 * SLACK
            armed = tmo[0] > 0 and (server or tmo[1] > 0)
        elif t_reply[0] is not None:
            deadline = t_reply[0] + (tmo[1] if not server else 0) + SLACK
            armed = server or tmo[1] > 0
        elif p.closedByMe:
            deadline = t_closing[0] + tmo[0] + SLACK
            armed = tmo[0] > 0
        else:
            deadline = t_closing[0] + (tmo[1] if not server else 0) + SLACK
            armed = server or tmo[1] > 0
        if armed:
            clock.advance(max(0.0, deadline - clock.seconds()))
            wslib.drain(clock)
            note_state()
            sx.check(p.state == p.STATE_CLOSED, "closing->closed-within-timeouts", info=dict(info, deadline=deadline, t_closing=t_closing[0], t_reply=t_reply[0]))
    if t.closed is not None:
        own_lost(ConnectionDone())
        note_state()
    # late timers / late input have no effect
    n_before = len(trace)
    clock.advance(10)
    wslib.drain(clock)
    if lost[0]:
        extra = [e for e in trace[n_before:] if e[0] == who]
        sx.check(len(extra) == 0, "nothing-happens-after-closed", info=info)
    # ---- monitors
    sx.check(all(a <= b for a, b in zip(ranks, ranks[1:])), "state-only-moves-forward", info=dict(info, ranks=ranks))
    closes = trace.of(who, "close")
    sx.check(len(closes) <= 1, "onClose-at-most-once", info=info)
    if lost[0]:
        sx.check(len(closes) == 1, "onClose-exactly-once-when-transport-gone", info=info)
    idx_lost = [i for i, e in enumerate(trace) if e[0] == who and e[1] == "LOST"]
    idx_close = [i for i, e in enumerate(trace) if e[0] == who and e[1] == "close"]
    if idx_close:
        sx.check(bool(idx_lost) and idx_lost[0] < idx_close[0], "onClose-only-after-transport-gone", info=info)
        after = [e for e in trace[idx_close[0] + 1:] if e[0] == who]
        if fw == "asyncio":
            # the asyncio adapter calls transport.close() on the already lost transport when connection_lost() carries an exception
            # (asyncio idiom; a no-op there): a close request is neither a delivery nor a write
            after = [e for e in after if e[1] not in ("lose", "abort")]
        sx.check(len(after) == 0, "nothing-delivered-or-written-after-onClose", info=info)
    # frames we wrote
    wire = wslib.concat(t.take())
    frames, rest = wslib.parse_frames(sx, wire)
    sx.check(len(rest) == 0, "whole-frames-written", info=info)
    cf = [i for i, f in enumerate(frames) if f.opcode == 8]
    sx.check(len(cf) <= 1, "at-most-one-close-frame", info=info)
    if cf:
        sx.check(all(f.opcode >= 8 for f in frames[cf[0] + 1:]), "no-data-frame-after-close-frame", info=info)
        sx.check(len(frames) == cf[0] + 1, "nothing-written-after-close-frame", info=info)
        c = frames[cf[0]]
        sx.check(c.length != 1 and c.length <= 125, "close-payload-shape", info=info)
        if c.length >= 2:
            code = (c.payload[0] << 8) | c.payload[1]
            legal = sx.Or(*([code == k for k in LEGAL_CODES] + [sx.And(code >= 3000, code <= 4999)]))
            sx.check(legal, "close-status-code-legal-on-the-wire", info=info)
            reason = c.payload[2:]
            sx.check(len(reason) <= 123, "close-reason<=123-octets", info=info)
            sx.check(_utf8_valid(sx, reason), "close-reason-valid-utf8", info=info)
    if closes:
        wasClean, code, reason = closes[0][2], closes[0][3], closes[0][4]
        if wasClean is True or wasClean == True:  # noqa
            sx.cover("end:clean")
            sx.check(len(cf) == 1 and len(peer_close) >= 1, "clean=>close-frames-in-both-directions", info=info,
                     known=[("C05-server-close-reply-behind-sync-queue", bool(queued_used) and server)])
            # a peer that sends several close frames violates the protocol itself: which one is "the peer's" is undefined
            if len(peer_close) == 1:
                pcode, preason = peer_close[0]
                pvalid = pc_valid[0]
                if pvalid:
                    sx.check((code is None and pcode is None) or (pcode is not None and code == pcode), "clean=>reported-code-is-peers", info=info)
                    if preason is not None:
                        want = preason.decode("utf8")
                        sx.check(reason == want, "clean=>reported-reason-is-peers", info=info)
                    else:
                        sx.check(reason is None, "clean=>reported-reason-is-peers", info=info)
        else:
            sx.cover("end:unclean")
            sx.check(code == 1006, "unclean=>1006", info=info)
    return [log, ranks, len(closes)]


def truncate(sx, ncp, limit, prefix_len):
    """encode_truncate: result is a prefix of the full encoding, <= limit octets, valid UTF-8, and maximal"""
    from autobahn.util import encode_truncate
    text = "a" * prefix_len + sx.str("t", ncp, 0, 0x10FFFF)
    for cp in (text[prefix_len:] if sx.is_sym(text) else []):
        pass
    # surrogates cannot be encoded: not valid str content for this API
    items = text.items[prefix_len:] if sx.is_sym(text) else [ord(c) for c in text[prefix_len:]]
    for cp in items:
        sx.assume(sx.Not(sx.And(cp >= 0xD800, cp <= 0xDFFF)))
    full = text.encode("utf8")
    out = encode_truncate(text, limit)
    info = dict(ncp=ncp, limit=limit, prefix_len=prefix_len)
    sx.check(len(out) <= limit, "truncated<=limit", info=info)
    sx.check(out == full[:len(out)], "truncated-is-prefix-of-full-encoding", info=info)
    sx.check(_utf8_valid(sx, out), "truncated-is-valid-utf8", info=info)
    if len(out) < len(full):
        sx.cover("trunc:cut")
        # maximal: the next code point does not fit
        rest = full[len(out):]
        b0 = rest[0]
        nxt = sx.ite(b0 < 0x80, 1, sx.ite(b0 < 0xE0, 2, sx.ite(b0 < 0xF0, 3, 4)))
        sx.check(len(out) + nxt > limit, "truncation-is-maximal", info=info)
    else:
        sx.cover("trunc:whole")
    s2 = encode_truncate(text, limit, return_encoded=False)
    sx.check(s2.encode("utf8") == out, "str-and-bytes-forms-agree", info=info)
    return [len(out)]


def units(tier):
    U = []
    q = tier == "quick"
    K = 3 if q else 4
    tmos = [(1, 1)] if q else [(1, 1), (2, 1), (1, 2)]
    for server in (True, False):
        for fbd in (True, False):
            for echo in (False, True):
                for first in EVENTS:
                    if first in ("ownDrop",):
                        continue
                    if q and echo and first not in ("peerClose", "sendClose", "peerViolation"):
                        continue            # echoCloseCodeReason only matters once a peer close is involved
                    closing_first = first in ("sendClose", "peerClose", "peerViolation")
                    for tmo in (tmos + ([(2, 1), (1, 2)] if q and closing_first and not echo and not fbd else [])):
                        Ku = K if (closing_first or not q) else K - 1
                        U.append(("life/%s/%s/%s/%s/t%d%d" % ("S" if server else "C", "drop" if fbd else "hs", "echo" if echo else "-", first, tmo[0], tmo[1]),
                                  "lifecycle", dict(server=server, fbd=fbd, echo=echo, first=first, K=Ku, tmo=list(tmo), quick=q and Ku == K), dict(weight=5 if closing_first else 2)))
                # full 16-bit code space for local and peer close, in both orders, plus one more free event
                for a, b in (("sendClose", "peerClose"), ("peerClose", "sendClose"), ("peerClose", "peerClose"), ("sendClose", "sendClose"),
                             ("peerClose", "timer"), ("sendClose", "timer"), ("peerClose", "peerDrop"), ("sendClose", "peerDrop")):
                    U.append(("codes/%s/%s/%s/%s+%s" % ("S" if server else "C", "drop" if fbd else "hs", "echo" if echo else "-", a, b),
                              "lifecycle", dict(server=server, fbd=fbd, echo=echo, first=a, second=b, K=2, tmo=[1, 1], full=True), dict(weight=6)))
    # time passing between the events without landing on a deadline (a repeated peer close frame, a late reply, traffic while closing)
    for server in (True, False):
        for first in ("sendClose", "peerClose"):
            for tmo in ([(1, 1), (2, 1)] if q else [(1, 1), (2, 1), (1, 2), (2, 2)]):
                U.append(("tick/%s/hs/%s+tick/t%d%d" % ("S" if server else "C", first, tmo[0], tmo[1]), "lifecycle",
                          dict(server=server, fbd=False, echo=False, first=first, second="tick", K=3 if q else 4, tmo=list(tmo), ext=True), dict(weight=5)))
    for server in (True, False):
        for fbd in (True, False):
            for a, b in ((("layerFail", None), ("sendClose", "layerFail"), ("peerClose", "layerFail")) if q else
                         (("layerFail", None), ("sendClose", "layerFail"), ("peerClose", "layerFail"), ("send", "layerFail"), ("peerViolation", "layerFail"))):
                U.append(("layerfail/%s/%s/%s+%s" % ("S" if server else "C", "drop" if fbd else "hs", a, b or "*"), "lifecycle",
                          dict(server=server, fbd=fbd, echo=False, first=a, second=b, K=2 if (q or b is None) else 3, tmo=[1, 1]), dict(weight=4)))
    # the asyncio adapter on a virtual-time event loop (own interpreter per unit): same event alphabet, same monitors
    for server in (True, False):
        for fbd in ((False,) if q else (True, False)):
            for first in (("sendClose", "peerClose", "peerViolation") if q else ("sendClose", "peerClose", "peerViolation", "send", "timer", "peerDrop")):
                U.append(("aio/life/%s/%s/%s" % ("S" if server else "C", "drop" if fbd else "hs", first), "lifecycle",
                          dict(server=server, fbd=fbd, echo=False, first=first, K=2 if q else 3, tmo=[1, 1], quick=False, fw="asyncio"), dict(weight=8, framework="asyncio")))
    for ncp in ((1, 2, 3) if q else (1, 2, 3, 4)):
        for limit in range(0, 13 if q else 17):
            U.append(("trunc/%d/%d" % (ncp, limit), "truncate", dict(ncp=ncp, limit=limit, prefix_len=0)))
    for ncp in (1, 2):
        for limit in (122, 123, 124):
            U.append(("trunc121/%d/%d" % (ncp, limit), "truncate", dict(ncp=ncp, limit=limit, prefix_len=121)))
    return U
