#!/bin/bash
# tools/try_seed.sh <patch.diff> <ID> [tier] : apply a seeded change to /repo, run the check, undo it
P=$1; ID=$2; TIER=${3:-quick}
git -C /repo apply "$P" || { echo "patch does not apply"; exit 9; }
/verif/check $ID --tier $TIER --no-evidence 2>&1 | grep -E "VIOLATION|KNOWN-FINDING|INCONCLUSIVE|label=|-> exit" | cut -c1-400 | head -${LINES_MAX:-12}
git -C /repo checkout -- . ; git -C /repo status --short | head -3
