"""Demonstration on the real code: a CLIENT that answers a server-initiated close frame enters CLOSING and then
waits for the server to drop TCP with no timer armed - if the server never drops, the connection never reaches
CLOSED (violates 'once closing has begun, closed is reached within the configured close/drop timeouts').
Run: PYTHONPATH=/repo/src /venv/bin/python findings/C05_client_reply_close_no_timer_demo.py (exit 1 = defect present)"""
import sys, base64, hashlib
import txaio
txaio.use_twisted()
from twisted.internet.task import Clock
clock = Clock(); txaio.config.loop = clock
from autobahn.twisted.websocket import WebSocketClientFactory, WebSocketClientProtocol

class T:
    def __init__(s): s.w = []; s.closed = None
    def write(s, d): s.w.append(d)
    def loseConnection(s): s.closed = s.closed or "lose"
    def abortConnection(s): s.closed = s.closed or "abort"
    def getPeer(s):
        from twisted.internet.address import IPv4Address
        return IPv4Address("TCP", "127.0.0.1", 1)
    getHost = getPeer
    def setTcpNoDelay(s, v): pass
    def registerProducer(s, *a): pass
    def unregisterProducer(s): pass

f = WebSocketClientFactory("ws://localhost:9000", reactor=clock)
f.setProtocolOptions(closeHandshakeTimeout=1, serverConnectionDropTimeout=1)
f.protocol = WebSocketClientProtocol
p = f.buildProtocol(None); t = T(); p.makeConnection(t)
req = b"".join(t.w).decode()
key = [l.split(": ")[1] for l in req.split("\r\n") if l.startswith("Sec-WebSocket-Key")][0].encode()
acc = base64.b64encode(hashlib.sha1(key + b"258EAFA5-E914-47DA-95CA-C5AB0DC85B11").digest())
p.dataReceived(b"HTTP/1.1 101 Switching Protocols\r\nUpgrade: websocket\r\nConnection: Upgrade\r\nSec-WebSocket-Accept: " + acc + b"\r\n\r\n")
assert p.state == p.STATE_OPEN
p.dataReceived(b"\x88\x02\x03\xe8")       # server-initiated close 1000
assert p.state == p.STATE_CLOSING
clock.advance(60)                          # the server never drops TCP
print("state after 60 s:", {0: "CLOSED", 2: "CLOSING", 3: "OPEN"}[p.state], "transport closed:", t.closed, "pending timers:", len(clock.getDelayedCalls()))
sys.exit(0 if p.state == p.STATE_CLOSED else 1)
