"""Real WAMP transports (WebSocket / RawSocket, Twisted / asyncio) driven in memory on a fake lower
transport: the session is attached by the real handshake code; helpers feed WAMP messages to it in the
transport's framing and decode what it writes back into WAMP messages."""
import os
from symx.env import FakeTransport, Trace, NULLLOG
from . import wslib

FW = os.environ.get("VERIF_FRAMEWORK", "twisted")


class Handle:
    pass


def _json():
    from autobahn.wamp.serializer import JsonSerializer
    return JsonSerializer()


def attach(kind, sx, trace, session_factory, peer_lexp=15, serializer=None):
    """kind in tw-ws-client | tw-ws-server | tw-raw-client | tw-raw-server | aio-raw-client | aio-raw-server
    peer_lexp: the maximum-length exponent the (simulated) peer announces in the RawSocket handshake (may be symbolic)"""
    h = Handle()
    h.kind = kind
    h.ser = serializer or _json()
    h.codec = _json()
    if kind.startswith("tw-ws"):
        _attach_tw_ws(h, kind.endswith("server"), sx, trace, session_factory)
    elif kind.startswith("tw-raw"):
        _attach_tw_raw(h, kind.endswith("server"), sx, trace, session_factory, peer_lexp)
    else:
        _attach_aio_raw(h, kind.endswith("server"), sx, trace, session_factory, peer_lexp)
    return h


# ---- Twisted WebSocket ---------------------------------------------------------------------------
def _attach_tw_ws(h, server, sx, trace, session_factory):
    import base64
    import hashlib
    from autobahn.twisted import websocket as tw
    from symx.env import Addr
    clock = wslib.setup_twisted()
    wslib.patch_env(sx, clock, fixed_rnd=True)
    if server:
        f = tw.WampWebSocketServerFactory(session_factory, "ws://localhost:9000", serializers=[h.ser], reactor=clock)
    else:
        f = tw.WampWebSocketClientFactory(session_factory, "ws://localhost:9000", serializers=[h.ser], reactor=clock)
    f.log = NULLLOG
    p = f.buildProtocol(Addr())
    p.log = NULLLOG
    t = FakeTransport(trace, "X")
    p.makeConnection(t)
    key = base64.b64encode(wslib._FIXED_KEY)
    sub = "wamp.2." + h.ser.SERIALIZER_ID
    if server:
        p.dataReceived(b"GET / HTTP/1.1\r\nHost: localhost:9000\r\nUpgrade: websocket\r\nConnection: Upgrade\r\n"
                       b"Sec-WebSocket-Key: " + key + b"\r\nSec-WebSocket-Protocol: " + sub.encode() + b"\r\nSec-WebSocket-Version: 13\r\n\r\n")
    else:
        acc = base64.b64encode(hashlib.sha1(key + b"258EAFA5-E914-47DA-95CA-C5AB0DC85B11").digest())
        p.dataReceived(b"HTTP/1.1 101 Switching Protocols\r\nUpgrade: websocket\r\nConnection: Upgrade\r\n"
                       b"Sec-WebSocket-Protocol: " + sub.encode() + b"\r\nSec-WebSocket-Accept: " + acc + b"\r\n\r\n")
    t.take()
    h.clock, h.proto, h.t, h.server = clock, p, t, server
    h.session = p._session
    mask = b"\x01\x02\x03\x04" if server else None
    binary = h.ser._serializer.BINARY

    def feed(msg):
        payload, is_bin = h.codec.serialize(msg) if h.codec.SERIALIZER_ID == h.ser.SERIALIZER_ID else h.ser.serialize(msg)
        p.dataReceived(wslib.build_frame(2 if is_bin else 1, payload, mask=mask))

    def feed_raw(data):
        p.dataReceived(data)

    def sent():
        wslib.drain(clock)
        frames, rest = wslib.parse_frames(sx, wslib.concat(t.take()))
        out = []
        for fr in frames:
            if fr.opcode in (1, 2):
                out.extend(h.codec.unserialize(bytes(fr.payload), fr.opcode == 2))
            elif fr.opcode == 8:
                out.append(("ws-close", (fr.payload[0] << 8 | fr.payload[1]) if fr.length >= 2 else None))
        return out

    def set_send_limit(n):
        p.maxMessagePayloadSize = n

    h.feed, h.feed_raw, h.sent, h.set_send_limit = feed, feed_raw, sent, set_send_limit
    h.limit_of = lambda n: n


# ---- Twisted RawSocket ----------------------------------------------------------------------------
def _attach_tw_raw(h, server, sx, trace, session_factory, peer_lexp):
    import struct
    from autobahn.twisted import rawsocket as rs
    wslib.setup_twisted()
    if server:
        f = rs.WampRawSocketServerFactory(session_factory, serializers=[h.ser])
    else:
        f = rs.WampRawSocketClientFactory(session_factory, serializer=h.ser)
    f.log = NULLLOG
    p = f.buildProtocol(None)
    p.log = NULLLOG
    t = FakeTransport(trace, "X")
    p.makeConnection(t)
    sid = h.ser.RAWSOCKET_SERIALIZER_ID
    from symx.core import mkbytes
    hs = mkbytes([0x7F, (peer_lexp << 4) | sid, 0, 0])
    p.dataReceived(hs)
    h.handshake_written = wslib.concat(t.take())
    h.proto, h.t, h.server = p, t, server
    h.session = p._session

    def feed(msg):
        payload, _ = h.codec.serialize(msg)
        p.dataReceived(struct.pack("!I", len(payload)) + payload)

    def sent():
        data = wslib.concat(t.take())
        out, pos = [], 0
        while pos + 4 <= len(data):
            n = struct.unpack("!I", bytes(data[pos:pos + 4]))[0]
            out.extend(h.codec.unserialize(bytes(data[pos + 4:pos + 4 + n])))
            pos += 4 + n
        return out

    h.feed, h.feed_raw, h.sent = feed, p.dataReceived, sent


# ---- asyncio RawSocket ------------------------------------------------------------------------------
def _attach_aio_raw(h, server, sx, trace, session_factory, peer_lexp):
    import struct
    from autobahn.asyncio import rawsocket as rs
    if server:
        f = rs.WampRawSocketServerFactory(session_factory, serializers=[h.ser])
    else:
        f = rs.WampRawSocketClientFactory(session_factory, serializer=h.ser)
    f.log = NULLLOG
    p = f()
    p.log = NULLLOG
    t = FakeTransport(trace, "X")
    p.connection_made(t)
    sid = h.ser.RAWSOCKET_SERIALIZER_ID
    from symx.core import mkbytes
    p.data_received(mkbytes([0x7F, (peer_lexp << 4) | sid, 0, 0]))
    h.handshake_written = wslib.concat(t.take())
    h.proto, h.t, h.server = p, t, server
    h.session = getattr(p, "_session", None)

    def feed(msg):
        payload, _ = h.codec.serialize(msg)
        p.data_received(struct.pack("!I", len(payload)) + payload)

    def sent():
        data = wslib.concat(t.take())
        out, pos = [], 0
        while pos + 4 <= len(data):
            n = struct.unpack("!I", bytes(data[pos:pos + 4]))[0] & 0xFFFFFF
            out.extend(h.codec.unserialize(bytes(data[pos + 4:pos + 4 + n])))
            pos += 4 + n
        return out

    h.feed, h.feed_raw, h.sent = feed, p.data_received, sent


def aio_setup():
    """minimal deterministic asyncio loop for txaio (futures only; no I/O)"""
    import asyncio
    import txaio
    txaio.use_asyncio()
    loop = asyncio.new_event_loop()
    asyncio.set_event_loop(loop)
    txaio.config.loop = loop
    return loop


def run_loop_once(loop, n=5):
    """let scheduled callbacks (future done-callbacks) run"""
    for _ in range(n):
        loop.call_soon(loop.stop)
        loop.run_forever()
