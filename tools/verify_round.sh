#!/bin/bash
# tools/verify_round.sh <round> <wtroot> <first-suffix-number> ID... : confirm both sub-agent changes of each ID (m1 -> m<k>, m2 -> m<k+1>)
R=$1; W=$2; K=$3; shift 3
for ID in "$@"; do
  WTROOT=$W ROUND=$R /verif/tools/verify_seedN.sh $ID m1 m$K
  WTROOT=$W ROUND=$R /verif/tools/verify_seedN.sh $ID m2 m$((K+1))
done
