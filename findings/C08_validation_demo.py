"""Real-code demonstration of C08 findings.  Fixed (77eaf22c, 3d7ce4b4): trailing newline / non-ASCII digits in URI patterns;
forward_for never validated.  Still open (known findings C08-unvalidated:*): details that reach constructor assertions or are not range checked.
Run: PYTHONPATH=<tree>/src /venv/bin/python findings/C08_validation_demo.py   (prints one line per case)"""
import txaio; txaio.use_twisted()
from autobahn.wamp import message
from autobahn.wamp.exception import ProtocolError, InvalidUriError
def t(name, f):
    try:
        f(); print(name, "-> ACCEPTED")
    except (ProtocolError, InvalidUriError) as e: print(name, "-> rejected:", type(e).__name__)
    except Exception as e: print(name, "-> OTHER EXCEPTION:", type(e).__name__)
t("uri with trailing newline", lambda: message.check_or_raise_uri("com.myapp.topic\n"))
t("strict uri with ARABIC-INDIC digit", lambda: message.check_or_raise_uri("com.٠", strict=True))
t("CALL forward_for=[1]", lambda: message.Call.parse([48, 1, {"forward_for": [1]}, "com.p"]))
t("CALL caller=-5", lambda: message.Call.parse([48, 1, {"caller": -5}, "com.p"]))
t("WELCOME realm=True", lambda: message.Welcome.parse([2, 1, {"realm": True, "roles": {"broker": {}}}]))
t("UNSUBSCRIBED request=5 + subscription detail", lambda: message.Unsubscribed.parse([35, 5, {"subscription": 7}]))
