"""C11 genuine defect: the EVENT branch iterates the live handler list of the subscription while handlers run; a handler that unsubscribes
itself (the one-shot idiom) or an earlier handler from inside its callback shifts the list, and the NEXT handler of the same subscription
never sees this event although it was attached when the event arrived and still is.
Run: /venv/bin/python findings/c11_oneshot_handler_demo.py [tree]"""
import sys
sys.path.insert(0, (sys.argv[1] if len(sys.argv) > 1 else "/repo") + "/src")
import txaio
txaio.use_twisted()
from autobahn.wamp import message, role
from autobahn.wamp.protocol import ApplicationSession


class Tr:
    def __init__(self): self.sent = []
    def send(self, m): self.sent.append(m)
    def isOpen(self): return True
    def close(self): pass
    def abort(self): pass
    def transport_details(self): return None
    def get_channel_id(self, *a): return None


s = ApplicationSession()
t = Tr()
s.onOpen(t)
s.onMessage(message.Welcome(1, {"broker": role.RoleBrokerFeatures()}))
calls = []
subs = {}


def once(*a):
    calls.append("once")
    subs["once"].unsubscribe()


def always(*a):
    calls.append("always")


for name, h in (("once", once), ("always", always)):
    d = s.subscribe(h, "com.myapp.topic")
    s.onMessage(message.Subscribed(t.sent[-1].request, 4242))
    subs[name] = d.result
s.onMessage(message.Event(4242, 1, args=[1]))
s.onMessage(message.Event(4242, 2, args=[2]))
print("calls:", calls)
ok = calls == ["once", "always", "always"]
print("ok" if ok else "DEFECT: handler 'always' missed the first event because the handler before it unsubscribed itself")
sys.exit(0 if ok else 1)
