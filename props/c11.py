"""C11  Events reach exactly the handlers subscribed at that moment."""
from . import wamplib

PID = "C11"
FUNCTIONS = [
    "autobahn.wamp.protocol: ApplicationSession.subscribe (callable and decorated-object forms), _unsubscribe",
    "autobahn.wamp.protocol: ApplicationSession.onMessage branches Subscribed / Unsubscribed / Event / Error(unsubscribe)",
    "autobahn.wamp.request: Subscription.unsubscribe, Handler",
    "autobahn.wamp.uri: Pattern / subscribe decorator (object form)",
    "autobahn.wamp.types: EventDetails, SubscribeOptions",
]
STUBS = ["transport -> recording ITransport", "real Twisted Deferreds", "loggers -> empty bodies"]
ASSUMPTIONS = [
    "Twisted back-end; subscription ids in SUBSCRIBED and EVENT are free integers (two requests may or may not be given the same id), request ids of replies are taken from the requests (correlation itself is C04)",
    "handlers are synchronous callables (async handlers go through the same txaio.as_future path)",
]
BOUNDS = {
    "quick": "3 handlers (one asking for event details, each with a free 'raises' flag) subscribed with free subscription ids, then <= 4 steps over {unsubscribe handler i, UNSUBSCRIBED, ERROR for the unsubscribe, EVENT with free subscription id and one of 4 payload shapes}; 1-3 handlers on one subscription where a free 'actor' unsubscribes a free 'target' from inside its callback, two events (reentrant/ units)",
    "thorough": "3 handlers x <= 5 steps, 2 handlers x <= 6 steps, 4 handlers x <= 4 steps (4 handlers x 5 steps was measured: over the 40 min budget)",
}
EXPECT_COVERS = ["reentrant", "objform", "event:delivered", "event:shared-id", "event:racing-unsubscribe-dropped", "event:unknown-id-ProtocolError", "handler:raised", "unsubscribe:last", "unsubscribe:not-last"]
BUDGET = {"quick": dict(wall_s=300, max_paths=40000, diff_samples=4), "thorough": dict(wall_s=2400, max_paths=500000)}

SHAPES = [("none", None, None), ("args", [1, 2], None), ("kwargs", None, {"k": 1}), ("both", [1], {"k": 1, "z": 2})]


def history(sx, nh, steps, first, second=None, rpat=None):
    from autobahn.wamp import message, types
    from autobahn.wamp.exception import ProtocolError
    clock, trace, s, t = wamplib.joined_session(sx)
    calls = []
    raises = [sx.flag("raises%d" % i) for i in range(nh)] if rpat is None else [i in rpat for i in range(nh)]
    detail_arg = {1: "details"}          # handler 1 asks for event details

    def mk(i):
        def h(*a, **k):
            calls.append((i, a, k))
            if raises[i]:
                raise RuntimeError("handler %d fails" % i)
        return h

    handlers = [mk(i) for i in range(nh)]
    topics = ["com.t.a", "com.t.a", "com.t.b", "com.t.c"]
    subs = []
    sids = []
    for i in range(nh):
        opts = types.SubscribeOptions(details_arg=detail_arg[i]) if i in detail_arg else None
        d = s.subscribe(handlers[i], topics[i], options=opts)
        req = t.sent[-1].request
        sid = sx.int("sid%d" % i, 1, 2 ** 53)
        s.onMessage(message.Subscribed(req, sid))
        subs.append(d.result)
        sids.append(sid)
    # shadow model: per handler (active, id); ids compared through the solver on this path
    active = [True] * nh
    forgotten = []            # ids for which UNSUBSCRIBED has been processed / never held
    pending_unsub = []        # (request id, subscription id expr, deferred)
    log = []

    def same(a, b):
        return bool(a == b)

    for step in range(steps):
        menu = ["event", "unsubscribe", "unsubscribed", "unsub-error"]
        ev = first if step == 0 else (second if step == 1 and second else menu[sx.choice("ev%d" % step, len(menu))])
        if ev == "unsubscribe":
            cand = [i for i in range(nh) if active[i]]
            if not cand:
                continue
            i = cand[sx.choice("who%d" % step, len(cand))]
            nsent = len(t.sent)
            d = subs[i].unsubscribe()
            active[i] = False
            others = [j for j in range(nh) if active[j] and same(sids[j], sids[i])]
            sent_unsub = [m for m in t.sent[nsent:] if isinstance(m, message.Unsubscribe)]
            if others:
                sx.check(len(sent_unsub) == 0, "no-UNSUBSCRIBE-while-other-handlers-remain", info=dict(i=i, others=others))
                sx.cover("unsubscribe:not-last")
            else:
                sx.check(len(sent_unsub) == 1, "UNSUBSCRIBE-sent-when-last-handler-removed", info=dict(i=i))
                if sent_unsub:
                    sx.check(sent_unsub[0].subscription == sids[i], "UNSUBSCRIBE-names-the-subscription", info=dict(i=i))
                    pending_unsub.append((sent_unsub[0].request, sids[i], d))
                sx.cover("unsubscribe:last")
            log.append(("unsubscribe", i))
        elif ev in ("unsubscribed", "unsub-error"):
            if not pending_unsub:
                continue
            req, sid, d = pending_unsub.pop(0)
            if ev == "unsubscribed":
                s.onMessage(message.Unsubscribed(req))
                forgotten.append(sid)
            else:
                s.onMessage(message.Error(message.Unsubscribe.MESSAGE_TYPE, req, "wamp.error.no_such_subscription"))
                d.addErrback(lambda f: None)
            sx.check(d.called, "unsubscribe-request-completed")
            log.append((ev,))
        else:
            eid = sx.int("eid%d" % step, 1, 2 ** 53)
            # payload shape is a free choice for the last event of the history; earlier events use the richest shape
            shape, args, kwargs = SHAPES[sx.choice("shape%d" % step, len(SHAPES))] if step == steps - 1 else SHAPES[3]
            pub = 5000 + step
            before = len(calls)
            exc = None
            try:
                s.onMessage(message.Event(eid, pub, args=list(args) if args else None, kwargs=dict(kwargs) if kwargs else None, publisher=77))
            except ProtocolError as e:
                exc = e
            except Exception as e:  # noqa
                sx.fail("handler-or-internal-exception-escapes-onMessage", info=repr(e))
                return ["exc"]
            got = calls[before:]
            expect = [i for i in range(nh) if active[i] and same(eid, sids[i])]
            info = dict(step=step, shape=shape, expect=expect, got=[g[0] for g in got], exc=repr(exc), log=log)
            sx.check([g[0] for g in got] == expect, "event-invokes-exactly-the-current-handlers-once-each-in-order", info=info)
            for (i, a, k) in got:
                want_k = dict(kwargs or {})
                dk = detail_arg.get(i)
                k2 = dict(k)
                det = k2.pop(dk, None) if dk else None
                sx.check(tuple(a) == tuple(args or ()), "handler-gets-published-args", info=info)
                sx.check(k2 == want_k, "handler-gets-published-kwargs-only", info=dict(info, handler=i, got_kwargs=sorted(k2), want=sorted(want_k)))
                if dk:
                    ok = det is not None and det.publication == pub and det.publisher == 77
                    sx.check(ok, "handler-gets-requested-event-details", info=info)
            if expect:
                sx.check(exc is None, "delivered-event-raises-nothing", info=info)
                sx.cover("event:delivered")
                if len(expect) > 1:
                    sx.cover("event:shared-id")
                if any(raises[i] for i in expect):
                    sx.cover("handler:raised")
            else:
                held = [i for i in range(nh) if same(eid, sids[i])]
                racing = any(same(eid, sid) for (_, sid, _) in pending_unsub)
                was_forgotten = any(same(eid, f) for f in forgotten) and not racing
                if racing:
                    sx.check(exc is None, "event-racing-an-unsubscribe-is-dropped-silently", info=info)
                    sx.cover("event:racing-unsubscribe-dropped")
                elif not held or was_forgotten:
                    sx.check(isinstance(exc, ProtocolError), "event-for-id-never-held-or-forgotten=>ProtocolError", info=info)
                    sx.cover("event:unknown-id-ProtocolError")
            log.append(("event", shape, [g[0] for g in got]))
    # inactive handlers are never invoked again: covered by 'exactly-the-current-handlers' at each event
    return [log]


def reentrant(sx, nh):
    """handlers sharing one subscription; handler `actor` unsubscribes handler `target` (itself, an earlier or a later one) from inside its
    callback while the EVENT is being dispatched (the one-shot handler idiom).  Every handler that is attached when the event arrives and has
    not been unsubscribed by the time its turn comes is invoked exactly once, in order; the unsubscribed one is never invoked after its
    unsubscribe() returned; the next event reaches exactly the remaining handlers"""
    from autobahn.wamp import message
    from autobahn.wamp.exception import ProtocolError
    clock, trace, s, t = wamplib.joined_session(sx)
    calls = []
    actor = sx.choice("actor", nh)
    target = sx.choice("target", nh)
    subs = []
    done = [False]
    unsub_returned = [None]

    def mk(i):
        def h(*a, **k):
            calls.append(i)
            if i == actor and not done[0]:
                done[0] = True
                subs[target].unsubscribe()
                unsub_returned[0] = len(calls)
        return h

    for i in range(nh):
        d = s.subscribe(mk(i), "com.t.shared")
        req = t.sent[-1].request
        s.onMessage(message.Subscribed(req, 4242))
        subs.append(d.result)
    info = dict(nh=nh, actor=actor, target=target)
    nsent = len(t.sent)
    for ev in (1, 2):
        before = len(calls)
        try:
            s.onMessage(message.Event(4242, 9000 + ev, args=[ev]))
        except Exception as e:  # noqa
            sx.fail("exception-escapes-onMessage", info=dict(info, exc=repr(e), event=ev))
            return ["exc"]
        got = calls[before:]
        if ev == 1:
            # the target is skipped only if its turn comes after the unsubscribe (target after actor in subscription order)
            expect = [i for i in range(nh) if not (i == target and target > actor)]
        else:
            expect = [i for i in range(nh) if i != target]
        sx.check(got == expect, "event-during-which-a-handler-unsubscribes: every-other-attached-handler-invoked-once-in-order" if ev == 1
                 else "next-event-reaches-exactly-the-remaining-handlers", info=dict(info, event=ev, got=got, expect=expect))
        if ev == 1 and target > actor:
            sx.check(target not in got, "unsubscribed-handler-not-invoked-after-its-unsubscribe-returned", info=dict(info, got=got))
    unsubs = [m for m in t.sent[nsent:] if isinstance(m, message.Unsubscribe)]
    sx.check(len(unsubs) == (1 if nh == 1 else 0), "UNSUBSCRIBE-exactly-when-the-last-handler-went", info=dict(info, n=len(unsubs)))
    sx.cover("reentrant")
    return [actor, target, calls]


def object_options(sx):
    """subscribe(obj) with decorated methods: each handler is subscribed with ITS decorator's options and receives the details argument it
    asked for - nothing leaks from one decorated method to the next (harness shared with C04)"""
    from . import c04
    r = c04.object_options(sx, "subscribe")
    sx.cover("objform")
    return r


def units(tier):
    U = []
    q = tier == "quick"
    U.append(("objopts/subscribe", "object_options", dict(), dict(weight=3)))
    for nh in ((1, 2, 3) if q else (1, 2, 3, 4)):
        U.append(("reentrant/%d" % nh, "reentrant", dict(nh=nh)))
    menu = ["event", "unsubscribe", "unsubscribed", "unsub-error"]
    for nh, steps in ((3, 4 if q else 5), (2, 4 if q else 6)) + (() if q else ((4, 4),)):
        for first in ("event", "unsubscribe"):
            for second in menu:
                if first == "event" and second in ("unsubscribed", "unsub-error"):
                    continue
                for rpat in ([], [0], [1]):
                    U.append(("hist/%d/%s+%s/r%s" % (nh, first, second, "".join(map(str, rpat)) or "-"), "history",
                              dict(nh=nh, steps=steps, first=first, second=second, rpat=rpat), dict(weight=nh)))
    return U
