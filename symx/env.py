"""Environment stubs shared by harnesses (identical in symbolic and plain/replay runs)."""
import os
import sys


class NullLog:
    """logger with empty bodies (formatting/logging is not the subject of any property)"""

    def _n(self, *a, **k):
        pass

    debug = info = warn = warning = error = trace = critical = failure = emit = _n

    def set_log_level(self, *a, **k):
        pass


NULLLOG = NullLog()


class Trace(list):
    """recorded observable events: tuples (who, kind, ...)"""

    def kinds(self, who=None):
        return [e[1] for e in self if who is None or e[0] == who]

    def of(self, who, kind=None):
        return [e for e in self if e[0] == who and (kind is None or e[1] == kind)]


class Addr:
    def __init__(self, host="127.0.0.1", port=9000):
        self.host, self.port, self.type = host, port, "TCP"


class FakeTransport:
    """stands in for a Twisted ITransport (also good enough for the asyncio-style calls used
    by the rawsocket classes): records everything written and every close request."""

    def __init__(self, trace, who, peer_port=51000):
        self.trace, self.who = trace, who
        self.written = []           # chunks in write order
        self.closed = None          # None | "lose" | "abort"
        self.disconnecting = False
        self._peer = Addr("127.0.0.1", peer_port)
        self._host = Addr("127.0.0.1", 9000)
        self.producer = None

    # twisted
    def write(self, data):
        self.written.append(data)
        self.trace.append((self.who, "write", data))

    def writeSequence(self, seq):
        for d in seq:
            self.write(d)

    def loseConnection(self, *a):
        self.trace.append((self.who, "lose"))
        if self.closed is None:
            self.closed = "lose"
        self.disconnecting = True

    def abortConnection(self):
        self.trace.append((self.who, "abort"))
        if self.closed is None:
            self.closed = "abort"
        self.disconnecting = True

    def getPeer(self):
        return self._peer

    def getHost(self):
        return self._host

    def setTcpNoDelay(self, v):
        pass

    def registerProducer(self, producer, streaming):
        self.producer = producer

    def unregisterProducer(self):
        self.producer = None

    # asyncio flavour
    def close(self):
        self.loseConnection()

    def abort(self):
        self.abortConnection()

    def is_closing(self):
        return self.closed is not None

    def get_extra_info(self, name, default=None):
        if name == "peername":
            return ("127.0.0.1", self._peer.port)
        if name == "sockname":
            return ("127.0.0.1", 9000)
        return default

    def take(self):
        """all octets written so far (list of chunks), clearing the buffer"""
        w, self.written = self.written, []
        return w


class StubRandom:
    """random.getrandbits / os.urandom replacement drawing fresh harness inputs"""

    def __init__(self, sx, prefix="rnd"):
        self.sx, self.prefix = sx, prefix
        self.draws = []

    def getrandbits(self, k):
        v = self.sx.int("%s.bits%d" % (self.prefix, k), 0, (1 << k) - 1)
        self.draws.append(v)
        return v

    def urandom(self, n):
        return self.sx.bytes("%s.urandom" % self.prefix, n)

    def randint(self, a, b):
        return self.sx.int("%s.randint" % self.prefix, a, b)

    def random(self):
        raise NotImplementedError

    def choice(self, seq):
        return seq[self.sx.choice("%s.choice" % self.prefix, len(seq))]


class ModProxy:
    """wraps a module so selected attributes are replaced (used to patch `random`, `os`, `time`
    inside one repository module without touching the global module)"""

    def __init__(self, mod, **over):
        self.__dict__["_mod"] = mod
        self.__dict__["_over"] = over

    def __getattr__(self, n):
        o = self.__dict__["_over"]
        if n in o:
            return o[n]
        return getattr(self.__dict__["_mod"], n)


def quiet_logging():
    """make txaio loggers silent in this process"""
    try:
        import txaio
        txaio.set_global_log_level("critical") if hasattr(txaio, "set_global_log_level") else None
    except Exception:
        pass
