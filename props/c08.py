"""C08  Untrusted WAMP input is either a valid message or a protocol error."""
from . import msglib

PID = "C08"
FUNCTIONS = [
    "autobahn.wamp.message: check_or_raise_uri + _URI_PAT_STRICT/LOOSE_{NON_EMPTY,EMPTY,LAST_EMPTY} (regular languages via REX), check_or_raise_realm_name + _URI_PAT_REALM_NAME*, _CUSTOM_ATTRIBUTE",
    "autobahn.wamp.message: check_or_raise_id, check_or_raise_extra, _validate_kwargs, is_valid_enc_algo, is_valid_enc_serializer",
    "autobahn.wamp.message: <all 25 classes>.parse (each list position and each option/detail replaced by values of every type)",
    "autobahn.wamp.role: RoleFeatures.__init__ / _check_all_bool (HELLO/WELCOME roles)",
    "autobahn.wamp.serializer: Serializer.unserialize (envelope checks, exception wrapping)",
]
STUBS = ["codec libraries -> 'returns any structure or raises any Exception' (only the wrapping in Serializer.unserialize is decided; octet-level fuzzing of C codecs is outside solver reach)",
         "regular expressions are not executed symbolically: the compiled pattern objects are read from the module and translated (REX) into z3 regular expressions with the semantics of pattern.match(); every witness is confirmed on the real function"]
ASSUMPTIONS = [
    "URI alphabet: all Unicode code points (z3 strings), witnesses up to 12 characters; Python's \\s and \\d classes are modelled for code points <= U+FFFF listed in symx/rex.py",
    "mutation menu per slot: None, bool, free 65-bit integer, float, 6 strings, bytes, 3 lists, 4 dicts; one slot at a time (thorough: pairs for the id/uri slots)",
]
BOUNDS = {"quick": "6 URI modes + 4 realm patterns + custom-attribute pattern: language inclusion both ways vs the WAMP grammar, witnesses <= 12 chars; ids over -2^64..2^64; 25 classes x every list position x every option key x 17 replacement values; envelope: 9 structures x free type code; codec raising 6 exception types x 4 serializers; every valid field also replaced by its equal-valued twin of another type and by +-10**5000; verdicts independent of earlier validations and of earlier messages (history/ units)",
          "thorough": "witness length <= 20; two simultaneous mutations for id/URI slots"}
EXPECT_COVERS = ["history", "typecode:accepted", "typecode:rejected", "uri:code-subset-of-spec", "uri:spec-subset-of-code", "uri:dispatch", "id:range", "parse:accepted", "parse:ProtocolError", "envelope", "codec-raises"]
BUDGET = {"quick": dict(wall_s=300, max_paths=20000, diff_samples=2), "thorough": dict(wall_s=2400, diff_samples=2)}

MODES = {  # (strict, allow_empty_components, allow_last_empty) -> pattern attribute
    (True, False, False): "_URI_PAT_STRICT_NON_EMPTY", (True, True, False): "_URI_PAT_STRICT_EMPTY", (True, False, True): "_URI_PAT_STRICT_LAST_EMPTY",
    (True, True, True): "_URI_PAT_STRICT_LAST_EMPTY",
    (False, False, False): "_URI_PAT_LOOSE_NON_EMPTY", (False, True, False): "_URI_PAT_LOOSE_EMPTY", (False, False, True): "_URI_PAT_LOOSE_LAST_EMPTY",
    (False, True, True): "_URI_PAT_LOOSE_LAST_EMPTY",
}


def _spec(strict, empty, last_empty):
    """the WAMP URI grammar for the mode, as a z3 regex over whole strings"""
    import z3
    from symx import rex
    if strict:
        ch = z3.Union(z3.Range("0", "9"), z3.Range("a", "z"), z3.Re("_"))
    else:
        ws = [9, 10, 11, 12, 13, 28, 29, 30, 31, 32, 0x85, 0xA0]
        ch = z3.Intersect(rex.ANY, z3.Complement(z3.Union(*([z3.Re(chr(c)) for c in ws] + [z3.Re("."), z3.Re("#")]))))
    comp = z3.Plus(ch)
    dot = z3.Re(".")
    if last_empty:
        return z3.Concat(z3.Star(z3.Concat(comp, dot)), z3.Option(comp))
    if empty:
        return z3.Concat(z3.Star(z3.Union(z3.Concat(comp, dot), dot)), z3.Option(comp))
    return z3.Concat(z3.Star(z3.Concat(comp, dot)), comp)


def uri_grammar(sx, strict, empty, last_empty, maxlen):
    """L(code pattern under match()) == L(WAMP grammar), both inclusions decided by z3's sequence solver"""
    from autobahn.wamp import message
    from autobahn.wamp.exception import InvalidUriError
    from symx import rex
    pat = getattr(message, MODES[(strict, empty, last_empty)])
    code = rex.match_language(pat)
    spec = _spec(strict, empty, last_empty)
    info = dict(strict=strict, empty=empty, last_empty=last_empty, pattern=pat.pattern)

    def real_accepts(s):
        try:
            message.check_or_raise_uri(s, strict=strict, allow_empty_components=empty, allow_last_empty=last_empty)
            return True
        except InvalidUriError:
            return False

    st, w = rex.find_difference(code, spec, max_len=maxlen)
    if st == "sat":
        w = rex.z3_unescape(w)
        # confirm on the real function before reporting
        sx.check(not real_accepts(w), "grammar-violating-uri-accepted", info=dict(info, witness=w, codepoints=[ord(c) for c in w]))
    else:
        sx.check(st == "unsat", "solver-verdict(code-subset-of-spec)", info=dict(info, status=st))
    sx.cover("uri:code-subset-of-spec")
    st, w = rex.find_difference(spec, code, max_len=maxlen)
    if st == "sat":
        w = rex.z3_unescape(w)
        sx.check(real_accepts(w), "valid-uri-rejected", info=dict(info, witness=w))
    else:
        sx.check(st == "unsat", "solver-verdict(spec-subset-of-code)", info=dict(info, status=st))
    sx.cover("uri:spec-subset-of-code")
    # dispatch: strings that separate this mode's grammar from every other mode's grammar must be judged by THIS grammar
    for other in sorted(set(MODES) - {(strict, empty, last_empty)}):
        o = _spec(*other)
        for a, b, want in ((spec, o, True), (o, spec, False)):
            st, w = rex.find_difference(a, b, max_len=8)
            if st == "sat":
                w = rex.z3_unescape(w)
                sx.check(real_accepts(w) == want, "uri-judged-by-the-grammar-of-the-requested-mode", info=dict(info, witness=w, other=other, want=want))
                # ... whatever was validated before: the same string judged under the other mode first (an earlier message of the
                # connection where it is legal / illegal), then again under this mode
                try:
                    message.check_or_raise_uri(w, strict=other[0], allow_empty_components=other[1], allow_last_empty=other[2])
                except InvalidUriError:
                    pass
                sx.check(real_accepts(w) == want, "uri-verdict-independent-of-earlier-validations", info=dict(info, witness=w, other=other, want=want))
    sx.cover("uri:dispatch")
    # non-strings and None
    for v in (None, 1, b"com.a", ["com"], 1.5, True):
        ok = True
        try:
            message.check_or_raise_uri(v, strict=strict, allow_empty_components=empty, allow_last_empty=last_empty)
        except InvalidUriError:
            ok = False
        sx.check(not ok, "non-string-uri-rejected", info=dict(info, value=repr(v)))
    sx.check(message.check_or_raise_uri(None, allow_none=True) is None, "allow_none")
    return [pat.pattern]


def other_patterns(sx, which, maxlen):
    """realm-name / ENS / custom-attribute patterns accept whole strings only (no trailing newline) and exactly their documented alphabet"""
    import z3
    from autobahn.wamp import message
    from symx import rex
    pat = getattr(message, which)
    code = rex.match_language(pat)
    AZ, az, dg = z3.Range("A", "Z"), z3.Range("a", "z"), z3.Range("0", "9")
    sym = z3.Union(z3.Re("_"), z3.Re("-"), z3.Re("@"), z3.Re("."))
    if which == "_URI_PAT_REALM_NAME":
        spec = z3.Concat(z3.Union(AZ, az), z3.Loop(z3.Union(AZ, az, dg, sym), 2, 254))
    elif which == "_URI_PAT_REALM_NAME_ETH":
        spec = z3.Concat(z3.Re("0x"), z3.Loop(z3.Union(z3.Range("A", "F"), z3.Range("a", "f"), dg), 40, 40))
    elif which == "_URI_PAT_REALM_NAME_ENS":
        spec = z3.Concat(z3.Loop(z3.Union(az, dg, sym), 2, 250), z3.Re(".eth"))
    elif which == "_URI_PAT_REALM_NAME_ENS_REVERSE":
        spec = z3.Concat(z3.Re("eth."), z3.Loop(z3.Union(az, dg, sym), 2, 250))
    else:
        spec = z3.Concat(z3.Re("x_"), z3.Option(z3.Concat(az, z3.Plus(z3.Union(az, dg, z3.Re("_"))))))
    st, w = rex.find_difference(code, spec, max_len=max(maxlen, 46))
    if st == "sat":
        w = rex.z3_unescape(w)
        sx.check(pat.match(w) is None, "pattern-accepts-string-outside-its-grammar", info=dict(pattern=pat.pattern, witness=w, codepoints=[ord(c) for c in w][-4:]))
    else:
        sx.check(st == "unsat", "solver-verdict", info=dict(status=st, which=which))
    st, w = rex.find_difference(spec, code, max_len=max(maxlen, 46))
    if st == "sat":
        sx.check(pat.match(rex.z3_unescape(w)) is not None, "pattern-rejects-string-of-its-grammar", info=dict(pattern=pat.pattern, witness=w))
    sx.cover("uri:code-subset-of-spec")
    return [which]


def ids(sx):
    from autobahn.wamp import message
    from autobahn.wamp.exception import ProtocolError
    v = sx.int("id", -2 ** 64, 2 ** 64)
    try:
        r = message.check_or_raise_id(v)
        ok = True
    except ProtocolError:
        ok = False
    sx.check(sx.Iff(ok, sx.And(v >= 0, v <= 2 ** 53)), "id-accepted-iff-in-0..2^53")
    if ok:
        sx.check(r == v, "id-returned-unchanged")
    for bad in (True, 1.0, "1", None, [1], b"1"):
        try:
            message.check_or_raise_id(bad)
            sx.check(False, "non-integer-id-rejected", info=repr(bad))
        except ProtocolError:
            pass
    sx.cover("id:range")
    return []


# an integer beyond CPython's int->str conversion limit (4300 digits): a CBOR bignum delivers it; rendering it into a message raises ValueError
HUGE = 10 ** 5000


def _r(v):
    if type(v) is int and v.bit_length() > 4096:
        return "%s10**5000" % ("-" if v < 0 else "")
    try:
        return repr(v)[:40]
    except ValueError:
        return "<unrenderable>"


def _menu(sx, tag):
    return [None, True, sx.int("mut." + tag, -2 ** 64, 2 ** 64), 1.5, "", "a b", "com.myapp.valid", "x", "com..bad", "é", b"x", [], [1], ["a"],
            {}, {"a": 1}, {1: 2}, HUGE, -HUGE]


def mutate(sx, cname, slot, shape="full"):
    """each list position / option key of a valid message replaced by a value of every type: valid message or ProtocolError/InvalidUriError.
    Base message shapes: every option present ("full"), no option ("min"), positional arguments only ("args"), the encrypted-payload form ("pt")"""
    from autobahn.wamp.exception import ProtocolError, InvalidUriError
    cls = msglib.classes()[cname]
    allopts = msglib.optional_params(cls)
    opts = {"full": [p for p in allopts if p not in msglib.PT], "min": [], "args": [p for p in allopts if p == "args"],
            "pt": [p for p in allopts if p in ("payload", "enc_algo", "enc_key", "enc_serializer")]}[shape]
    m, kw = msglib.build(msglib_conc(), cname, opts)
    base = m.marshal()
    n = len(base)
    # where is the options/details dict
    dpos = [i for i, x in enumerate(base) if isinstance(x, dict)]
    targets = []
    if slot == "positions":
        # position 0 is the type code: parse() is only entered after the dispatch on it (checked by the envelope units)
        targets = [("pos", i) for i in range(1, n)] + [("len+1", None), ("len-1", None), ("len0", None)]
    else:
        for dp in dpos[:1]:
            for k in list(base[dp].keys()):
                targets.append(("opt", (dp, k)))
            targets.append(("opt-unknown", (dp, "zzz_unknown")))
            # keys that parse() looks at but that the fully-optioned message did not marshal (read from parse()'s source)
            for k in _keys_read_by_parse(cls):
                if k not in base[dp]:
                    targets.append(("opt", (dp, k)))
    log = []
    for kind, where in targets:
        values = _menu(sx, "%s.%s.%s" % (cname, kind, where)) if kind in ("pos", "opt", "opt-unknown") else [None]
        # type-confusable twins of the valid value that sits there: equal in value (==, hash, `in`), different in type
        orig = base[where] if kind == "pos" else (base[where[0]].get(where[1]) if kind == "opt" else None)
        if type(orig) is int:
            values = values + [float(orig)]
        elif type(orig) is str:
            values = values + [orig.encode("utf8")]
        elif type(orig) is bool:
            values = values + [int(orig)]
        for vi, v in enumerate(values):
            wire = [dict(x) if isinstance(x, dict) else (list(x) if isinstance(x, list) else x) for x in base]
            if kind == "pos":
                wire[where] = v
            elif kind in ("opt", "opt-unknown"):
                wire[where[0]][where[1]] = v
            elif kind == "len+1":
                wire = wire + ["extra"] * (3 if cname in ("Publish", "Event", "Call", "Invocation", "Result", "Yield", "Error") else 1)
            elif kind == "len-1":
                wire = wire[:-1] if len(REQ_LEN.get(cname, ())) == 0 else wire[:min(REQ_LEN[cname]) - 1]
            else:
                wire = wire[:1]
            info = dict(cls=cname, kind=kind, where=repr(where), value=_r(v), shape=shape)
            try:
                m2 = cls.parse(wire)
            except (ProtocolError, InvalidUriError):
                sx.cover("parse:ProtocolError")
                continue
            except Exception as e:  # noqa
                sx.fail("parse-raises-something-else-than-a-protocol-level-error", info=dict(info, exc="%s: %s" % (type(e).__name__, str(e)[:120])),
                        known=[(_kid(cname, kind, where), True)])
                continue
            sx.cover("parse:accepted")
            # accepted: what was accepted must be a valid message: ids in range, uris strings, re-marshalling is stable
            for a in msglib.IDS:
                if hasattr(m2, a) and getattr(m2, a) is not None:
                    x = getattr(m2, a)
                    sx.check(sx.is_sym(x) or (type(x) is int), "accepted-id-is-an-integer", info=dict(info, attr=a))
                    sx.check(sx.And(x >= 0, x <= 2 ** 53), "accepted-id-in-range", info=dict(info, attr=a), known=[(_kid(cname, kind, where), True)])
            for a in ("topic", "procedure", "error", "reason", "realm"):
                if hasattr(m2, a) and getattr(m2, a) is not None:
                    sx.check(type(getattr(m2, a)) is str, "accepted-uri-is-a-string", info=dict(info, attr=a))
            try:
                w2 = m2.marshal()
                m3 = cls.parse(w2)
                sx.check(msglib.deep_eq(sx, m3.marshal(), w2), "accepted-message-re-marshals-stably", info=info)
                if kind == "pos" and where not in dpos[:1]:
                    # (the options / details dictionary is exempt: unknown keys are ignored by design and do not come back)
                    # equivalent to the input: the accepted value is still there (an empty container / null at a trailing position may be left off)
                    present = len(w2) > where and bool(msglib.deep_eq(sx, w2[where], v))
                    dropped_empty = len(w2) <= where and (v is None or (isinstance(v, (list, dict)) and len(v) == 0))
                    sx.check(present or dropped_empty, "accepted-value-survives-re-marshalling(equivalent-to-the-input)", info=dict(info, remarshalled=_r(w2)),
                             known=[(_kid(cname, kind, where), True)])
            except Exception as e:  # noqa
                sx.fail("accepted-message-cannot-be-re-marshalled", info=dict(info, exc=repr(e)[:160]), known=[(_kid(cname, kind, where), True)])
            if kind == "len+1":
                sx.check(False, "wrong-element-count-accepted", info=info)
    return [cname, slot, len(targets)]


REQ_LEN = {}


def _keys_read_by_parse(cls):
    """string keys that cls.parse() reads from the options/details dict: `"k" in details`, `details["k"]`, `details.get("k")` (from the AST
    of the current source)"""
    import ast
    import inspect
    import textwrap
    try:
        tree = ast.parse(textwrap.dedent(inspect.getsource(cls.parse)))
    except (OSError, TypeError, SyntaxError):
        return []
    names = ("options", "details")
    keys = []

    def is_dict(n):
        return isinstance(n, ast.Name) and n.id in names
    for n in ast.walk(tree):
        k = None
        if isinstance(n, ast.Compare) and len(n.ops) == 1 and isinstance(n.ops[0], (ast.In, ast.NotIn)) and is_dict(n.comparators[0]) \
                and isinstance(n.left, ast.Constant) and isinstance(n.left.value, str):
            k = n.left.value
        elif isinstance(n, ast.Subscript) and is_dict(n.value) and isinstance(n.slice, ast.Constant) and isinstance(n.slice.value, str):
            k = n.slice.value
        elif isinstance(n, ast.Call) and isinstance(n.func, ast.Attribute) and n.func.attr == "get" and is_dict(n.func.value) and n.args \
                and isinstance(n.args[0], ast.Constant) and isinstance(n.args[0].value, str):
            k = n.args[0].value
        if k is not None and k not in keys:
            keys.append(k)
    return keys


def roles(sx, cname):
    """HELLO / WELCOME role announcements: every feature of every role must be a boolean, roles must be known"""
    import inspect
    from autobahn.wamp import role
    from autobahn.wamp.exception import ProtocolError, InvalidUriError
    cls = msglib.classes()[cname]
    m, kw = msglib.build(msglib_conc(), cname, [])
    base = m.marshal()
    dp = [i for i, x in enumerate(base) if isinstance(x, dict)][0]
    mine = ("caller", "callee", "publisher", "subscriber") if cname == "Hello" else ("broker", "dealer")
    n = 0
    for rname in mine:
        rcls = role.ROLE_NAME_TO_CLASS[rname]
        feats = [p for p in inspect.signature(rcls.__init__).parameters if p not in ("self", "kwargs")]
        for f in feats:
            for bad in ("yes", 1, sx.int("feat.%s.%s" % (rname, f), 2, 2 ** 31), [True], {"a": True}, 0.5):
                wire = [dict(x) if isinstance(x, dict) else x for x in base]
                wire[dp] = dict(wire[dp])
                wire[dp]["roles"] = {rname: {"features": {f: bad}}}
                info = dict(cls=cname, role=rname, feature=f, value=repr(bad)[:30])
                try:
                    cls.parse(wire)
                    sx.check(False, "non-boolean-role-feature-accepted", info=info)
                except (ProtocolError, InvalidUriError):
                    pass
                except Exception as e:  # noqa
                    sx.fail("parse-raises-something-else-than-a-protocol-level-error", info=dict(info, exc=repr(e)[:100]))
                n += 1
            wire = [dict(x) if isinstance(x, dict) else x for x in base]
            wire[dp] = dict(wire[dp])
            wire[dp]["roles"] = {rname: {"features": {f: True}}}
            try:
                m2 = cls.parse(wire)
                sx.check(getattr(m2.roles[rname], f) is True, "boolean-role-feature-preserved", info=dict(cls=cname, role=rname, feature=f))
            except Exception as e:  # noqa
                sx.fail("valid-role-feature-rejected", info=dict(cls=cname, role=rname, feature=f, exc=repr(e)[:100]))
    # feature NAMES are peer-controlled too: unknown names, and names that collide with parameter / attribute names of the role classes
    for rname in mine:
        for fname in ("zzz_unknown", "self", "kwargs", "ROLE", "_private", "__class__", "args", ""):
            for val in (True, 5):
                wire = [dict(x) if isinstance(x, dict) else x for x in base]
                wire[dp] = dict(wire[dp])
                wire[dp]["roles"] = {rname: {"features": {fname: val}}}
                try:
                    m2 = cls.parse(wire)
                    m2.marshal()
                except (ProtocolError, InvalidUriError):
                    pass
                except Exception as e:  # noqa
                    sx.fail("parse-raises-something-else-than-a-protocol-level-error", info=dict(cls=cname, role=rname, feature_name=fname, value=val, exc=repr(e)[:100]))
    for badroles in ({"nosuchrole": {}}, {}, {mine[0]: 5}, {mine[0]: {"features": 5}}, [mine[0]], None):
        wire = [dict(x) if isinstance(x, dict) else x for x in base]
        wire[dp] = dict(wire[dp])
        wire[dp]["roles"] = badroles
        try:
            cls.parse(wire)
            if badroles == {} and cname == "Welcome":
                continue
            sx.check(False, "invalid-roles-accepted", info=dict(cls=cname, roles=repr(badroles)))
        except (ProtocolError, InvalidUriError):
            pass
        except Exception as e:  # noqa
            sx.fail("parse-raises-something-else-than-a-protocol-level-error", info=dict(cls=cname, roles=repr(badroles), exc=repr(e)[:100]))
    sx.cover("parse:ProtocolError")
    return [cname, n]


def _kid(cname, kind, where):
    """known-finding id of a validation gap: one per (message class, slot)"""
    if kind == "pos":
        return "C08-unvalidated:%s[%s]" % (cname, where)
    if kind in ("opt", "opt-unknown"):
        return "C08-unvalidated:%s.%s" % (cname, where[1])
    return "C08-unvalidated:%s/%s" % (cname, kind)


class msglib_conc:
    def int(self, name, lo, hi):
        return max(lo, min(hi, 7))


def envelope(sx, ser_id):
    """Serializer.unserialize: whatever the codec hands back (or raises), the caller sees messages or ProtocolError"""
    from autobahn.wamp.exception import ProtocolError, InvalidUriError
    from autobahn.wamp import serializer as ser
    from .c03 import _serializer
    s = _serializer(ser_id, False)
    if s is None:
        return ["missing"]
    tcode = sx.int("typecode", -2 ** 31, 2 ** 31)
    structures = [None, 5, "str", {}, [], [None], ["1"], [tcode], [tcode, 1], [tcode, 1, {}], [tcode, 1, 2, 3, 4, 5, 6, 7, 8], [True, 1, 2], [1.0, 2]]
    for st in structures:
        s._serializer.unserialize = lambda payload, st=st: [st]
        try:
            out = s.unserialize(b"whatever", ser_id != "json")
            sx.check(isinstance(out, list) and all(hasattr(m, "marshal") for m in out), "unserialize-returns-messages", info=repr(st)[:60])
            known = sorted(ser.Serializer.MESSAGE_TYPE_MAP)
            if isinstance(st, list) and st and sx.is_sym(st[0]):
                sx.check(sx.Or(*[tcode == k for k in known]), "accepted-type-code-is-a-known-one")
        except (ProtocolError, InvalidUriError):
            pass
        except Exception as e:  # noqa
            sx.fail("unserialize-raises-something-else-than-ProtocolError", info=dict(structure=repr(st)[:60], exc="%s: %s" % (type(e).__name__, e)))
    sx.cover("envelope")
    # codec raising arbitrary exceptions
    for exc in (ValueError("x"), KeyError("k"), RuntimeError("r"), UnicodeDecodeError("utf-8", b"x", 0, 1, "bad"), IndexError("i"), TypeError("t"), OverflowError("o")):
        def boom(payload, exc=exc):
            raise exc
        s._serializer.unserialize = boom
        try:
            s.unserialize(b"whatever", ser_id != "json")
            sx.check(False, "codec-error-swallowed")
        except ProtocolError:
            pass
        except Exception as e:  # noqa
            sx.fail("codec-exception-escapes-unwrapped", info="%s" % type(e).__name__)
    # wrong binary flag
    try:
        s.unserialize(b"x", ser_id == "json")
        sx.check(False, "wrong-binary-flag-accepted")
    except ProtocolError:
        pass
    sx.cover("codec-raises")
    return [ser_id]


def typecode(sx, ser_id):
    """a VALID body of every message class behind a first element that is not the integer type code: values that compare equal to it
    (True == 1, 1.0 == 1), other types, unknown integers.  Accepted => the first element is an int, a known code, and re-marshals as itself"""
    from autobahn.wamp.exception import ProtocolError, InvalidUriError
    from autobahn.wamp import serializer as ser
    from .c03 import _serializer
    s = _serializer(ser_id, False)
    if s is None:
        return ["missing"]
    known = sorted(ser.Serializer.MESSAGE_TYPE_MAP)
    free = sx.int("code", -2 ** 31, 2 ** 31)
    for cname in sorted(msglib.classes()):
        m, kw = msglib.build(msglib_conc(), cname, [])
        base = m.marshal()
        code = base[0]
        for v in (bool(code) if code in (0, 1) else None, True, False, float(code), str(code), None, [code], {"t": code}, -code, code + 1000, HUGE, -HUGE, free):
            st = [v] + list(base[1:])
            s._serializer.unserialize = lambda payload, st=st: [st]
            info = dict(cls=cname, first=_r(v)[:20], type=type(v).__name__)
            try:
                out = s.unserialize(b"whatever", ser_id != "json")
            except (ProtocolError, InvalidUriError):
                sx.cover("typecode:rejected")
                continue
            except Exception as e:  # noqa
                # a foreign body behind a known code can run into that class's recorded validation gaps (string at the args position)
                kn = [("C08-unvalidated:Result[3]", v == 50), ("C08-unvalidated:Publish[4]", v == 16), ("C08-unvalidated:Call[4]", v == 48)] if sx.is_sym(v) else []
                sx.fail("unserialize-raises-something-else-than-ProtocolError", info=dict(info, exc="%s: %s" % (type(e).__name__, e)), known=kn)
                continue
            if sx.is_sym(v):
                # a free integer in front of this class's body: accepted only as a known code (the body then happens to fit that class)
                sx.check(sx.Or(*[v == k for k in known]), "accepted-type-code-is-a-known-one", info=info)
            else:
                sx.check(type(v) is int and v in known, "non-integer-or-unknown-type-code-accepted", info=info)
            sx.check(len(out) == 1 and out[0].marshal()[0] == v and type(out[0].marshal()[0]) is int, "type-code-re-marshals-as-itself", info=info)
            sx.cover("typecode:accepted")
    return [ser_id]


def real_bytes(sx, ser_id, which):
    """a few arbitrary / mutated octet strings through the real codec (concrete; the C codecs themselves are not encoded)"""
    from autobahn.wamp.exception import ProtocolError
    from .c03 import _serializer, _restore_codecs
    _restore_codecs()
    s = _serializer(ser_id, False)
    if s is None:
        return ["missing"]
    from autobahn.wamp import message
    good, is_bin = s.serialize(message.Call(1, "com.p", args=[1]))
    cases = {"empty": b"", "garbage": b"\xff\xfe\x00garbage", "truncated": good[:-2], "flipped": bytes([good[0] ^ 0xFF]) + good[1:], "nested": good + good,
             "scalar": {"json": b"5", "msgpack": b"\x05", "cbor": b"\x05", "ubjson": b"i\x05"}[ser_id]}
    data = cases[which]
    try:
        out = s.unserialize(data, is_bin)
        sx.check(all(hasattr(m, "marshal") for m in out), "real-codec:messages")
    except ProtocolError:
        pass
    except Exception as e:  # noqa
        sx.fail("real-codec:exception-escapes-unwrapped", info=dict(ser=ser_id, case=which, exc="%s: %s" % (type(e).__name__, e)))
    sx.cover("codec-raises")
    return [ser_id, which]


HISTORIES = [
    # (message where the URI is legal, message where the same string is not)
    ([32, 1, {"match": "wildcard"}, "com.myapp..update"], [16, 2, {}, "com.myapp..update"]),
    ([64, 3, {"match": "prefix"}, "com.myapp.sensors."], [48, 4, {}, "com.myapp.sensors."]),
    ([32, 5, {"match": "prefix"}, "com.myapp."], [64, 6, {}, "com.myapp."]),
    ([64, 7, {"match": "wildcard"}, ".myapp.proc"], [8, 48, 8, {}, ".myapp.proc"]),
    ([32, 9, {"match": "wildcard"}, "com..x"], [6, {}, "com..x"]),
    ([64, 10, {"match": "prefix"}, "a.b."], [3, {}, "a.b."]),
]


def history(sx, k, order):
    """the verdict on a message does not depend on the messages parsed before it (a validator that remembers what it has accepted)"""
    from autobahn.wamp import serializer
    from autobahn.wamp.exception import ProtocolError, InvalidUriError
    legal, illegal = HISTORIES[k]
    seq = {"legal-first": [legal, illegal, legal], "illegal-first": [illegal, legal, illegal]}[order]
    for raw in seq:
        cls = serializer.Serializer.MESSAGE_TYPE_MAP[raw[0]]
        try:
            cls.parse(list(raw))
            got = "accepted"
        except (ProtocolError, InvalidUriError):
            got = "ProtocolError"
        except Exception as e:  # noqa
            got = type(e).__name__
        want = "accepted" if raw is legal else "ProtocolError"
        sx.check(got == want, "verdict-independent-of-earlier-messages", info=dict(raw=repr(raw), got=got, want=want, order=order))
    sx.cover("history")
    return [k, order]


def units(tier):
    U = []
    q = tier == "quick"
    ml = 12 if q else 20
    for (strict, empty, last) in sorted(MODES):
        U.append(("uri/%s/%s/%s" % ("strict" if strict else "loose", "empty" if empty else "-", "last" if last else "-"), "uri_grammar",
                  dict(strict=strict, empty=empty, last_empty=last, maxlen=ml), dict(weight=9)))
    for w in ("_URI_PAT_REALM_NAME", "_URI_PAT_REALM_NAME_ETH", "_URI_PAT_REALM_NAME_ENS", "_URI_PAT_REALM_NAME_ENS_REVERSE", "_CUSTOM_ATTRIBUTE"):
        U.append(("pat/" + w, "other_patterns", dict(which=w, maxlen=ml), dict(weight=8)))
    U.append(("ids", "ids", dict()))
    for k in range(len(HISTORIES)):
        for order in ("legal-first", "illegal-first"):
            U.append(("history/%d/%s" % (k, order), "history", dict(k=k, order=order)))
    for cname in sorted(msglib.classes()):
        for slot in ("positions", "options"):
            U.append(("mut/%s/%s" % (cname, slot), "mutate", dict(cname=cname, slot=slot), dict(weight=3)))
        allopts = msglib.optional_params(msglib.classes()[cname])
        for shape in ("min", "args", "pt"):
            if shape == "args" and "args" not in allopts or shape == "pt" and "payload" not in allopts:
                continue
            for slot in ("positions", "options") if shape == "pt" else ("positions",):
                U.append(("mut/%s/%s/%s" % (cname, slot, shape), "mutate", dict(cname=cname, slot=slot, shape=shape), dict(weight=2)))
    for cname in ("Hello", "Welcome"):
        U.append(("roles/" + cname, "roles", dict(cname=cname), dict(weight=3)))
    for ser_id in ("json", "msgpack", "cbor", "ubjson"):
        U.append(("env/" + ser_id, "envelope", dict(ser_id=ser_id)))
        U.append(("typecode/" + ser_id, "typecode", dict(ser_id=ser_id), dict(weight=4)))
        for w in ("empty", "garbage", "truncated", "flipped", "nested", "scalar"):
            U.append(("bytes/%s/%s" % (ser_id, w), "real_bytes", dict(ser_id=ser_id, which=w)))
    return U
