"""Generic construction of valid WAMP messages of all 25 classes from a per-parameter value table
(classes are discovered from Serializer.MESSAGE_TYPE_MAP at run time)."""
import inspect

REQUIRED = {
    "Hello": ["realm", "roles"], "Welcome": ["session", "roles"], "Abort": ["reason"], "Challenge": ["method"], "Authenticate": ["signature"],
    "Goodbye": [], "Error": ["request_type", "request", "error"], "Publish": ["request", "topic"], "Published": ["request", "publication"],
    "Subscribe": ["request", "topic"], "Subscribed": ["request", "subscription"], "Unsubscribe": ["request", "subscription"], "Unsubscribed": ["request"],
    "Event": ["subscription", "publication"], "Call": ["request", "procedure"], "Cancel": ["request"], "Result": ["request"],
    "Register": ["request", "procedure"], "Registered": ["request", "registration"], "Unregister": ["request", "registration"], "Unregistered": ["request"],
    "Invocation": ["request", "registration"], "Interrupt": ["request"], "Yield": ["request"], "EventReceived": ["publication"],
}
SKIP = {"from_fbs"}
IDS = {"request", "session", "publication", "subscription", "registration", "publisher", "caller", "callee", "resume_session"}
# payload transparency: payload excludes args/kwargs and needs enc_algo
PT = {"payload", "enc_algo", "enc_key", "enc_serializer"}


URI_MENU = {
    "exact": ["com.myapp.thing1", "a"],
    "prefix": ["com.myapp.thing1", "com.myapp.", "com"],
    "wildcard": ["com.myapp.thing1", "com..thing1", ".myapp.thing1", "com.myapp..", ".", "com..."],
}


def classes():
    from autobahn.wamp import serializer
    return dict((cls.__name__, cls) for code, cls in serializer.Serializer.MESSAGE_TYPE_MAP.items())


def optional_params(cls):
    sig = inspect.signature(cls.__init__)
    req = REQUIRED[cls.__name__]
    return [n for n in sig.parameters if n not in ("self",) and n not in SKIP and n not in req]


def enums(cname, name):
    """fields with a finite admissible value set: every member is driven (free choice), not one representative"""
    from autobahn.wamp import message as M
    if name == "request_type":
        return [M.Call.MESSAGE_TYPE, M.Subscribe.MESSAGE_TYPE, M.Unsubscribe.MESSAGE_TYPE, M.Publish.MESSAGE_TYPE, M.Register.MESSAGE_TYPE,
                M.Unregister.MESSAGE_TYPE, M.Invocation.MESSAGE_TYPE]
    if name == "match":
        return ["prefix", "exact", "wildcard"]
    if name == "invoke":
        return ["roundrobin", "single", "first", "last", "random"]
    if name == "mode":
        return ["kill", "killnowait"] + (["skip"] if cname == "Cancel" else [])
    if name == "enc_serializer":
        return ["json", "msgpack", "cbor", "ubjson"]
    return None


def value(sx, cname, name, tag=""):
    """a valid value for constructor parameter `name` (ids / counters are free integers)"""
    from autobahn.wamp import role
    en = enums(cname, name)
    if en is not None:
        if hasattr(sx, "choice"):
            return en[sx.choice("%s.%s%s" % (cname, name, tag), len(en))]
        return en[0]
    if name in IDS:
        lo = 0 if name in ("request",) and cname in ("Unregistered", "Unsubscribed") else 1
        return sx.int("%s.%s%s" % (cname, name, tag), lo if name != "request" else 0, 2 ** 53)
    if name == "request_type":
        return 48
    if name in ("topic", "procedure"):
        return "com.myapp.thing1"
    if name == "error":
        return "com.myapp.error.oops"
    if name == "reason":
        return "wamp.error.not_authorized" if cname not in ("Unsubscribed", "Unregistered") else "wamp.authentication.lost"
    if name == "realm":
        return "realm1"
    if name == "roles":
        if cname == "Hello":
            return {"caller": role.RoleCallerFeatures(), "subscriber": role.RoleSubscriberFeatures(publisher_identification=True)}
        return {"broker": role.RoleBrokerFeatures(publisher_identification=True), "dealer": role.RoleDealerFeatures(progressive_call_results=True)}
    if name == "authmethods":
        return ["wampcra", "ticket"]
    if name in ("authid", "authprovider", "resume_token", "transaction_hash"):
        return "value-%s" % name
    if name == "authrole":
        return "user"
    if name == "authmethod":
        return "wampcra"
    if name in ("authextra", "extra"):
        return {"k": 1, "n": {"deep": [1, 2]}}
    if name in ("resumable", "resumed", "acknowledge", "exclude_me", "retain", "retained", "get_retained", "progress", "receive_progress",
                "force_reregister", "x_acknowledged_delivery"):
        return True
    if name == "message":
        return "some message é"
    if name == "method":
        return "wampcra"
    if name == "signature":
        return "sig=="
    if name == "args":
        return [1, "two", [3, None], {"four": 4.5}, sx.int("%s.arg%s" % (cname, tag), 0, 2 ** 53)]
    if name == "kwargs":
        return {"k": [1, 2], "s": "ü"}
    if name == "payload":
        return b"\x00\x01binary\xff"
    if name == "enc_algo":
        return "cryptobox"
    if name == "enc_key":
        return "key123"
    if name == "enc_serializer":
        return "json"
    if name in ("exclude", "eligible"):
        return [sx.int("%s.%s0%s" % (cname, name, tag), 0, 2 ** 53), 7]
    if name in ("exclude_authid", "eligible_authid", "exclude_authrole", "eligible_authrole"):
        return ["a1", "a2"]
    if name in ("publisher_authid", "caller_authid", "callee_authid"):
        return "joe"
    if name in ("publisher_authrole", "caller_authrole", "callee_authrole"):
        return "user"
    if name == "forward_for":
        return [{"session": 11, "authid": "r1", "authrole": "router"}, {"session": 12, "authid": "r2", "authrole": "router"}]
    if name == "timeout":
        return sx.int("%s.timeout%s" % (cname, tag), 0, 2 ** 31)
    if name == "match":
        return "prefix"
    if name == "invoke":
        return "roundrobin"
    if name == "concurrency":
        return sx.int("%s.concurrency%s" % (cname, tag), 1, 2 ** 31)
    if name == "mode":
        return "kill"
    if name == "custom":
        return {"x_my_attr": 7, "x_other": {"n": [1, 2]}}
    raise KeyError("no value rule for %s.%s" % (cname, name))


def build(sx, cname, present, tag=""):
    """construct cls(**required, **present options); returns (message, kwargs used)"""
    cls = classes()[cname]
    kw = {}
    for n in REQUIRED[cname]:
        kw[n] = value(sx, cname, n, tag)
    present = list(present)
    if any(p in PT for p in present):
        # payload transparency group travels together
        for n in ("payload", "enc_algo"):
            if n not in present and n in inspect.signature(cls.__init__).parameters:
                present.append(n)
        present = [p for p in present if p not in ("args", "kwargs")]
    # documented dependencies between fields
    if cname in ("Unsubscribed", "Unregistered") and any(p in present for p in ("subscription", "registration", "reason")):
        kw["request"] = 0                      # router-initiated revocation: request 0 + the revoked id (+ reason)
        key = "subscription" if cname == "Unsubscribed" else "registration"
        if key not in present:
            present.append(key)
    if cname == "Welcome" and "resumable" in present and "resume_token" not in present:
        present.append("resume_token")
    if cname == "Hello" and "resume_session" in present and "resume_token" not in present:
        present.append("resume_token")
    for n in present:
        kw[n] = value(sx, cname, n, tag)
    if cname in ("Subscribe", "Register"):
        # the URI grammar depends on the match policy: patterns with empty components are valid exactly where the policy admits them
        key = "topic" if cname == "Subscribe" else "procedure"
        menu = URI_MENU[kw.get("match") or "exact"]
        kw[key] = menu[sx.choice("%s.%s.uri%s" % (cname, key, tag), len(menu))] if hasattr(sx, "choice") else menu[0]
    return cls(**kw), kw


def deep_eq(sx, a, b):
    """structural equality over nested lists/dicts whose leaves may be symbolic; returns bool/SymBool"""
    if isinstance(a, (list, tuple)) and isinstance(b, (list, tuple)):
        if len(a) != len(b):
            return False
        return sx.And(*[deep_eq(sx, x, y) for x, y in zip(a, b)]) if a else True
    if isinstance(a, dict) and isinstance(b, dict):
        if set(a.keys()) != set(b.keys()):
            return False
        return sx.And(*[deep_eq(sx, a[k], b[k]) for k in a]) if a else True
    if hasattr(a, "__dict__") and hasattr(b, "__dict__") and type(a) is type(b) and not sx.is_sym(a):
        return deep_eq(sx, vars(a), vars(b))
    if isinstance(a, bool) != isinstance(b, bool) and not (sx.is_sym(a) or sx.is_sym(b)):
        return False
    r = (a == b)
    return r
