#!/bin/bash
# idempotent, offline: overlay venv on /venv's interpreter with z3-solver (+crosshair-tool, cvc5) from the wheelhouse
set -e
cd "$(dirname "$0")"
if [ -x .venv/bin/python ] && .venv/bin/python -c "import z3, autobahn" >/dev/null 2>&1; then exit 0; fi
rm -rf .venv
/venv/bin/python -m venv .venv
SP=$(.venv/bin/python -c "import sysconfig;print(sysconfig.get_paths()['purelib'])")
printf "import site; site.addsitedir('/venv/lib/python3.12/site-packages')\n" > "$SP/zz_venv_overlay.pth"
PIP_NO_INDEX=1 .venv/bin/pip install -q --no-index --find-links /opt/veriftools/wheels z3-solver
PIP_NO_INDEX=1 .venv/bin/pip install -q --no-index --find-links /opt/veriftools/wheels crosshair-tool cvc5 >/dev/null 2>&1 || true
.venv/bin/python -c "import z3, autobahn; print('setup ok: z3', z3.get_version_string())"
