"""C07  The opening handshake admits exactly the valid peers and never crashes."""
import base64
import hashlib
from . import wslib
from .c19 import UF, _b64
from symx.env import Trace, ModProxy, FakeTransport, NULLLOG

PID = "C07"
FUNCTIONS = [
    "autobahn.websocket.protocol: WebSocketServerProtocol.processHandshake / succeedHandshake / failHandshake / sendHttpErrorResponse, parseHttpHeader",
    "autobahn.websocket.protocol: WebSocketClientProtocol.startHandshake / _actuallyStartHandshake / processHandshake / failHandshake",
    "autobahn.websocket.protocol: _url_to_origin / _is_same_origin / _parseExtensionsHeader; autobahn.util: wildcards2patterns (via REX)",
    "autobahn.websocket.util: parse_url / create_url (concrete URLs)",
    "autobahn.twisted.websocket: adapter connectionMade / dataReceived / _closeConnection",
    "autobahn.asyncio.websocket: adapter connection_made / data_received / _consume / _closeConnection (aio/ units)",
]
STUBS = ["hashlib.sha1 -> uninterpreted function of its input octets (the harness checks WHAT is hashed: key + GUID); base64 modelled exactly",
         "os.urandom (client nonce) -> fixed octets; transport -> recording object; reactor -> twisted Clock; loggers -> empty bodies (their arguments are still evaluated)"]
ASSUMPTIONS = [
    "requests/responses are well-formed skeletons produced from the code's own client/server output with free fragments: all 24 characters of Sec-WebSocket-Key, the version digits, the status-code digits, all 28 characters of Sec-WebSocket-Accept, and 1-2 free latin-1 octets replacing a character of the method / HTTP version / Upgrade / Connection tokens / Host port / the header terminator / response body octets; header names, presence and duplication come from menus",
    "origin allow-list: wildcard strings from a menu, their compiled patterns (read from the real wildcards2patterns) compared as regular languages with whole-string glob semantics over printable ASCII",
    "proxy CONNECT, web-status/redirect rendering (hyperlink), urllib.parse internals on symbolic text, and arbitrary long garbage are outside the symbolic claim",
]
BOUNDS = {"quick": "server: free key (24 chars), free version (2 digits), 5 single-character token corruptions (free latin-1 octet each: method, HTTP version, Upgrade, Connection, Host port under externalPort) + 2 free octets around the header terminator, 5 headers x {absent, once, twice} x webStatus, every 5-event connection history x maxConnections in {1,2}, 6 wildcard lists x 9 origins + REX inclusion, connection limit, subprotocol menus; client: free status (3 digits), free accept (28 chars), 4 token corruptions, non-UTF-8 octets, foreign subprotocol; request construction for 8 URLs; self-interoperation over 6 option combinations x 3 segmentations; asyncio adapter: 6 units (free version/status digits, free token octet, free header-value octet) x 3 segmentations; every 1-cut segmentation of the handshake for the concrete skeletons; 15 client URLs incl. percent-encoded reserved characters, sub-delimiters, path parameters, dot and empty segments",
          "thorough": "7-event connection histories, 7 segmentations per interop combination"}
EXPECT_COVERS = ["aio", "srv:open", "srv:http-error", "srv:incomplete", "cli:open", "cli:failed", "origin:rex", "interop"]
BUDGET = {"quick": dict(wall_s=300, max_paths=30000, diff_samples=3), "thorough": dict(wall_s=2400)}

GUID = b"258EAFA5-E914-47DA-95CA-C5AB0DC85B11"
B64CH = "ABCDEFGHIJKLMNOPQRSTUVWXYZabcdefghijklmnopqrstuvwxyz0123456789+/"


def _install_sha1(sx):
    import autobahn.websocket.protocol as pm
    uf = UF(sx)

    class Sha1:
        def __init__(self, data=b""):
            self.data = data

        def update(self, d):
            self.data = self.data + d

        def digest(self):
            return uf.apply("sha1", 20, self.data)

    pm.hashlib = ModProxy(hashlib, sha1=Sha1)
    return uf


def _real_sha1():
    import autobahn.websocket.protocol as pm
    pm.hashlib = hashlib


def _server(sx, opts=None, mixin_attrs=None, url="ws://localhost:9000", protocols=None, external_port=None):
    clock = wslib.setup_twisted()
    wslib.patch_env(sx, clock, fixed_rnd=True)
    _real_sha1()
    trace = Trace()
    fk = dict(protocols=protocols) if protocols else {}
    if external_port:
        fk["externalPort"] = external_port
    fk = fk or None
    ep, f = wslib.make_endpoint(sx, "S", True, trace, clock, opts, url, None, fk, mixin_attrs)
    ep.p.makeConnection(ep.t)
    return clock, trace, ep


def _req(key="dGhlIHNhbXBsZSBub25jZQ==", version="13", method="GET", httpv="HTTP/1.1", upgrade="websocket", connection="Upgrade", host="localhost:9000",
         extra="", drop=(), twice=(), term="\r\n\r\n", resource="/"):
    from symx.core import SymStr
    lines = []

    def add(name, val):
        if name in drop:
            return
        lines.append((name, val))
        if name in twice:
            lines.append((name, val))
    add("Host", host)
    add("Upgrade", upgrade)
    add("Connection", connection)
    add("Sec-WebSocket-Key", key)
    add("Sec-WebSocket-Version", version)
    out = method + " " + resource + " " + httpv + "\r\n"
    for n, v in lines:
        out = out + n + ": " + v + "\r\n"
    out = out + extra
    out = out + term[2:] if term.startswith("\r\n") else out + term
    return out


def _enc(s):
    return s.encode("latin-1") if hasattr(s, "encode") else s


def _outcome(sx, ep, trace):
    """(opened, http_status or None, dropped) of a server endpoint after input"""
    opened = len(trace.of("S", "open")) > 0 and ep.p.state == ep.p.STATE_OPEN
    wire = wslib.concat(ep.t.take())
    status = None
    if len(wire) >= 12 and not sx.is_sym(wire[:12]):
        head = bytes(wire[:12])
        if head.startswith(b"HTTP/1.1 "):
            status = int(head[9:12])
    return opened, status, ep.t.closed is not None, wire


def server_key(sx):
    """all 24 key characters free (printable, non-space): accepted iff 22 base64 characters + '=='; the reply carries b64(SHA1(key + GUID))"""
    clock, trace, ep = _server(sx)
    uf = _install_sha1(sx)
    key = sx.str("key", 24, 33, 126)
    for it in (key.items if sx.is_sym(key) else []):
        sx.assume(it != 58) if False else None
    try:
        ep.p.dataReceived(_enc(_req(key=key)))
    except Exception as e:  # noqa
        sx.fail("exception-escapes-dataReceived", info=repr(e))
        return ["exc"]
    opened, status, dropped, wire = _outcome(sx, ep, trace)
    items = key.items if sx.is_sym(key) else [ord(c) for c in key]
    valid = sx.And(items[22] == 61, items[23] == 61, *[sx.Or(*[it == ord(c) for c in B64CH]) for it in items[:22]])
    sx.check(sx.Iff(opened, valid), "server-opens-iff-key-is-well-formed")
    if opened:
        calls = [c for c in uf.calls if c[0] == "sha1"]
        sx.check(len(calls) == 1, "one-sha1")
        hashed = calls[0][1][0]
        want = _enc(key) + GUID
        sx.check(hashed == want, "digest-input==key+GUID")
        acc = _b64(sx, calls[0][2])
        needle = b"Sec-WebSocket-Accept: " + acc + b"\r\n"
        sx.check(wire.find(needle) >= 0 if hasattr(wire, "find") else needle in wire, "reply-carries-base64(sha1(key+GUID))")
        sx.check(status == 101, "status-101")
        sx.cover("srv:open")
    else:
        sx.check(status is not None and status >= 400 and dropped, "invalid-key=>http-error-and-drop")
        sx.cover("srv:http-error")
    return [opened]


def server_version(sx):
    clock, trace, ep = _server(sx)
    v = sx.str("version", 2, 48, 57)
    try:
        ep.p.dataReceived(_enc(_req(version=v)))
    except Exception as e:  # noqa
        sx.fail("exception-escapes-dataReceived", info=repr(e))
        return ["exc"]
    opened, status, dropped, wire = _outcome(sx, ep, trace)
    items = v.items if sx.is_sym(v) else [ord(c) for c in v]
    num = (items[0] - 48) * 10 + (items[1] - 48)
    sx.check(sx.Iff(opened, sx.Or(num == 13, num == 8)), "server-opens-iff-version-supported")
    if not opened:
        sx.check(status == 400 and dropped, "unsupported-version=>400-and-drop")
        sx.check(b"Sec-WebSocket-Version: 13,8" in bytes(wire) if not sx.is_sym(wire) else True, "400-lists-supported-versions")
        sx.cover("srv:http-error")
    else:
        sx.cover("srv:open")
    return [opened]


CORRUPT = {
    # name: (field, index of the replaced character, predicate on the free code point under which the request stays valid)
    "method": ("method", 0, lambda sx, c: c == ord("G")),
    "httpv": ("httpv", 7, lambda sx, c: c == ord("1")),
    "upgrade": ("upgrade", 0, lambda sx, c: sx.Or(c == ord("w"), c == ord("W"))),
    "connection": ("connection", 0, lambda sx, c: sx.Or(c == ord("u"), c == ord("U"))),
    # the server is configured with externalPort=9000: the Host port must then be 9000
    "hostport": ("host", 10, lambda sx, c: c == ord("9")),
}


def server_corrupt(sx, which):
    """one character of a token replaced by a free latin-1 octet: the server opens iff the token is still what RFC 6455 requires"""
    clock, trace, ep = _server(sx, external_port=9000 if which == "hostport" else None)
    field, idx, pred = CORRUPT[which]
    base = dict(method="GET", httpv="HTTP/1.1", upgrade="websocket", connection="Upgrade", host="localhost:9000")
    c = sx.int("octet", 0, 255)
    from symx.core import mkstr
    val = base[field]
    newval = mkstr([ord(ch) for ch in val[:idx]] + [c] + [ord(ch) for ch in val[idx + 1:]])
    kw = {field: newval}
    try:
        ep.p.dataReceived(_enc(_req(**kw)))
    except Exception as e:  # noqa
        sx.fail("exception-escapes-dataReceived", info=dict(which=which, exc=repr(e)))
        return ["exc"]
    opened, status, dropped, wire = _outcome(sx, ep, trace)
    info = dict(which=which)
    if opened:
        sx.check(pred(sx, c), "server-opened-only-for-a-valid-request", info=info)
        sx.cover("srv:open")
    else:
        if bool(pred(sx, c)):
            sx.check(False, "valid-request-refused", info=info)
        # refused: HTTP error and/or drop, or (terminator damaged) still waiting
        sx.check(dropped or ep.p.state == ep.p.STATE_CONNECTING, "refusal=>dropped-or-still-waiting-for-the-header-end", info=info)
        sx.check(len(trace.of("S", "open")) == 0, "never-opened", info=info)
        sx.cover("srv:http-error" if dropped else "srv:incomplete")
    return [opened]


def server_terminator(sx):
    clock, trace, ep = _server(sx)
    c = sx.bytes("t", 2)
    data = _enc(_req(term="\r\n")) + b"\r" + c[0:1] + b"GARBAGE" + c[1:2]
    try:
        ep.p.dataReceived(data)
    except Exception as e:  # noqa
        sx.fail("exception-escapes-dataReceived", info=repr(e))
        return ["exc"]
    opened, status, dropped, wire = _outcome(sx, ep, trace)
    complete = c[0] == 10
    if opened:
        sx.check(complete, "opened-only-when-the-header-is-terminated")
        sx.cover("srv:open")
    elif dropped:
        sx.cover("srv:http-error")
    else:
        sx.check(sx.Not(complete), "unterminated-header-keeps-waiting")
        sx.check(len(wire) == 0, "nothing-written-while-waiting")
        sx.cover("srv:incomplete")
    return [opened]


def server_presence(sx, cut):
    """each required header absent / once / twice (free choice per header)"""
    web_status = sx.flag("webStatus")
    clock, trace, ep = _server(sx, dict(webStatus=web_status))
    names = ["Host", "Upgrade", "Connection", "Sec-WebSocket-Key", "Sec-WebSocket-Version"]
    st = [sx.choice("n%d" % i, 3) for i in range(len(names))]
    drop = [n for n, s in zip(names, st) if s == 0]
    twice = [n for n, s in zip(names, st) if s == 2]
    data = _enc(_req(drop=drop, twice=twice))
    try:
        wslib.deliver(ep, data, (cut,) if cut else ())
    except Exception as e:  # noqa
        sx.fail("exception-escapes-dataReceived", info=dict(drop=drop, twice=twice, exc=repr(e)))
        return ["exc"]
    opened, status, dropped, wire = _outcome(sx, ep, trace)
    single = ("Host", "Sec-WebSocket-Key", "Sec-WebSocket-Version")
    valid = not drop and not any(t in single for t in twice)
    info = dict(drop=drop, twice=twice, status=status)
    sx.check(opened == valid, "server-opens-iff-every-required-header-present-and-single-valued-ones-once", info=info)
    if not opened:
        # documented feature: a plain HTTP GET (no Upgrade header) is answered with the HTML status page (200), then dropped
        page_ok = "Upgrade" in drop and web_status
        sx.check(status is not None and dropped and (400 <= status < 600 or (page_ok and status == 200)), "invalid-request=>http-error-and-drop", info=info)
        if "Upgrade" in drop and not web_status and "Host" not in drop and "Host" not in twice:
            sx.check(status == 426, "no-upgrade-header=>426", info=info)
        sx.cover("srv:http-error")
    else:
        sx.cover("srv:open")
    return [opened, status]


ORIGIN_LISTS = [["*"], ["http://good.com:80"], ["https://*.example.com:443"], ["http://good.com:*"], ["*://good.com:80", "http://other.org:8080"], ["http://localhost:9000"]]
ORIGINS = ["http://good.com", "http://good.com.evil.com", "http://evilgood.com", "http://good.com:81", "https://a.example.com", "https://a.example.com.evil.org",
           "https://example.com", "null", "http://localhost:9000", "notaurl", "http://other.org:8080"]


def _glob_ok(pattern, text):
    import fnmatch
    import re as _re
    rx = "".join(".*" if ch == "*" else _re.escape(ch) for ch in pattern)
    return _re.fullmatch(rx, text) is not None


def server_origin(sx, li):
    """origin allow-list: whole-origin glob semantics through the real server, plus regular-language equality of the compiled patterns"""
    import z3
    from symx import rex
    from autobahn.util import wildcards2patterns
    from autobahn.websocket.protocol import _url_to_origin
    wl = ORIGIN_LISTS[li]
    pats = wildcards2patterns(wl)
    printable = z3.Range(" ", "~")
    for w, p in zip(wl, pats):
        code = z3.Intersect(rex.match_language(p), z3.Star(printable))
        parts = [z3.Star(printable) if ch == "*" else z3.Re(ch) for ch in w]
        spec = z3.Concat(*parts) if len(parts) > 1 else parts[0]
        for a, b, lab in ((code, spec, "pattern-accepts-more-than-the-glob"), (spec, code, "pattern-rejects-what-the-glob-allows")):
            stt, wit = rex.find_difference(a, b, max_len=len(w) + 6)
            if stt == "sat":
                wit = rex.z3_unescape(wit)
                real = p.match(wit) is not None
                sx.check(real == _glob_ok(w, wit), lab, info=dict(wildcard=w, witness=wit))
            else:
                sx.check(stt == "unsat", "solver-verdict", info=dict(status=stt))
    sx.cover("origin:rex")
    for o in ORIGINS:
        clock, trace, ep = _server(sx, dict(allowedOrigins=wl))
        try:
            ep.p.dataReceived(_enc(_req(extra="Origin: " + o + "\r\n")))
        except Exception as e:  # noqa
            sx.fail("exception-escapes-dataReceived", info=dict(origin=o, exc=repr(e)))
            continue
        opened, status, dropped, wire = _outcome(sx, ep, trace)
        try:
            tup = _url_to_origin(o)
            canon = None if tup == "null" else "%s://%s:%s" % tup
        except ValueError:
            canon = None
        want = canon is not None and any(_glob_ok(w, canon) for w in wl)
        sx.check(opened == want, "origin-admitted-iff-it-matches-a-wildcard-as-a-whole", info=dict(list=wl, origin=o, canon=canon, status=status))
        if not opened:
            sx.check(dropped and status is not None, "foreign-origin=>http-error-and-drop", info=dict(origin=o))
    return [li]


def server_misc(sx, which):
    if which == "maxconn":
        clock, trace, ep = _server(sx, dict(maxConnections=1))
        ep.p.dataReceived(_enc(_req()))
        o1 = _outcome(sx, ep, trace)
        # second connection on the same factory
        t2 = FakeTransport(trace, "S")
        p2 = ep.factory.buildProtocol(None)
        p2.makeConnection(t2)
        p2.dataReceived(_enc(_req()))
        resp = bytes(wslib.concat(t2.take()))
        sx.check(o1[0] and resp.startswith(b"HTTP/1.1 503") and t2.closed is not None and p2.state != p2.STATE_OPEN, "connection-limit=>503", info=dict(resp=resp[:20]))
    elif which in ("proto-ok", "proto-foreign", "proto-dup"):
        sel = {"proto-ok": "b", "proto-foreign": "zzz", "proto-dup": "a"}[which]

        def onConnect(self, req):
            return sel
        clock, trace, ep = _server(sx, None, dict(onConnect=onConnect), protocols=["a", "b"])
        hdr = "Sec-WebSocket-Protocol: a, b\r\n" if which != "proto-dup" else "Sec-WebSocket-Protocol: a, a\r\n"
        try:
            ep.p.dataReceived(_enc(_req(extra=hdr)))
        except Exception as e:  # noqa
            # an application returning a subprotocol the client did not offer is an application error surfaced by succeedHandshake
            sx.check(which == "proto-foreign", "exception-only-for-application-misuse", info=repr(e))
            return [which, "exc"]
        opened, status, dropped, wire = _outcome(sx, ep, trace)
        if which == "proto-ok":
            sx.check(opened and b"Sec-WebSocket-Protocol: b\r\n" in bytes(wire), "reply-carries-a-subprotocol-from-the-clients-list")
        else:
            sx.check(not opened, "foreign-or-duplicate-subprotocol-not-opened", info=dict(which=which, status=status))
    elif which == "leftover":
        clock, trace, ep = _server(sx)
        pl = sx.bytes("p", 2)
        ep.p.dataReceived(_enc(_req()) + wslib.build_frame(2, pl, mask=b"\x01\x02\x03\x04"))
        msgs = trace.of("S", "msg")
        sx.check(len(msgs) == 1 and bool(msgs[0][2] == pl), "octets-after-the-blank-line-go-to-the-frame-decoder")
    sx.cover("srv:open")
    return [which]


def server_limit(sx, maxconn, steps):
    """connection limit over arbitrary histories: a free sequence of connection events (valid handshake / invalid request then lost /
    lost before any data / an open connection goes away); never more than maxConnections open, and a valid handshake is admitted
    whenever the live transport connections (itself included) do not exceed the limit"""
    from twisted.internet.error import ConnectionDone
    from twisted.python.failure import Failure
    clock, trace, ep0 = _server(sx, dict(maxConnections=maxconn))
    f = ep0.factory
    ep0.p.connectionLost(Failure(ConnectionDone()))     # the endpoint built by the helper: connected, then gone
    live, opened, hist = [], [], []
    for k in range(steps):
        act = sx.choice("act%d" % k, 4)
        hist.append(act)
        if act == 3:
            if not opened:
                continue
            p = opened.pop(0)
            live.remove(p)
            p.connectionLost(Failure(ConnectionDone()))
            continue
        t = FakeTransport(trace, "S")
        p = f.buildProtocol(None)
        p.makeConnection(t)
        live.append(p)
        info = dict(hist=list(hist), maxconn=maxconn)
        try:
            if act == 0:
                p.dataReceived(_enc(_req()))
                resp = bytes(wslib.concat(t.take()))
                is_open = p.state == p.STATE_OPEN
                if len(live) <= maxconn:
                    sx.check(is_open and resp.startswith(b"HTTP/1.1 101"), "valid-handshake-below-the-limit-admitted", info=info)
                if is_open:
                    opened.append(p)
                    sx.check(len(opened) <= maxconn, "never-more-open-connections-than-maxConnections", info=info)
                else:
                    sx.check(resp.startswith(b"HTTP/1.1 503") and t.closed is not None, "over-the-limit=>503-and-drop", info=dict(info, resp=resp[:16]))
                    live.remove(p)
                    p.connectionLost(Failure(ConnectionDone()))
            elif act == 1:
                p.dataReceived(b"GET / HTTP/1.1\r\nHost: localhost:9000\r\n\r\n")
                sx.check(p.state != p.STATE_OPEN and t.closed is not None, "plain-http-not-opened", info=info)
                live.remove(p)
                p.connectionLost(Failure(ConnectionDone()))
            else:
                live.remove(p)
                p.connectionLost(Failure(ConnectionDone()))
        except Exception as e:  # noqa
            sx.fail("exception-escapes", info=dict(info, exc=repr(e)))
            return ["exc"]
        sx.check(len(opened) <= f.getConnectionCount() <= len(live), "open<=connection-count<=live-transport-connections", info=info)
    sx.cover("srv:open")
    return hist


# ---- client ---------------------------------------------------------------------------------------------
def _client(sx, url="ws://localhost:9000", protocols=None, opts=None):
    clock = wslib.setup_twisted()
    wslib.patch_env(sx, clock, fixed_rnd=True)
    _real_sha1()
    trace = Trace()
    fk = dict(protocols=protocols) if protocols else None
    ep, f = wslib.make_endpoint(sx, "C", False, trace, clock, opts, url, None, fk, None)
    ep.p.makeConnection(ep.t)
    req = bytes(wslib.concat(ep.t.take()))
    return clock, trace, ep, req


def _resp(status="101", accept=None, upgrade="websocket", connection="Upgrade", extra="", httpv="HTTP/1.1"):
    return httpv + " " + status + " Switching Protocols\r\nUpgrade: " + upgrade + "\r\nConnection: " + connection + "\r\n" + extra + "Sec-WebSocket-Accept: " + accept + "\r\n\r\n"


KEY = base64.b64encode(wslib._FIXED_KEY)
ACCEPT = base64.b64encode(hashlib.sha1(KEY + GUID).digest()).decode()


def client_status(sx):
    clock, trace, ep, req = _client(sx)
    st = sx.str("status", 3, 48, 57)
    try:
        ep.p.dataReceived(_enc(_resp(status=st, accept=ACCEPT)))
    except Exception as e:  # noqa
        sx.fail("exception-escapes-dataReceived", info=repr(e))
        return ["exc"]
    opened = len(trace.of("C", "open")) > 0
    sx.check(sx.Iff(opened, st == "101"), "client-opens-iff-status-101")
    if not opened:
        sx.check(ep.t.closed is not None and ep.p.state != ep.p.STATE_OPEN, "refused=>dropped")
        sx.cover("cli:failed")
    else:
        sx.cover("cli:open")
    return [opened]


def client_accept(sx):
    """all 28 characters of Sec-WebSocket-Accept free: the client opens iff it is the digest of ITS key (sha1 uninterpreted)"""
    clock, trace, ep, req = _client(sx)
    uf = _install_sha1(sx)
    acc = sx.str("accept", 28, 33, 126)
    try:
        ep.p.dataReceived(_enc(_resp(accept=acc)))
    except Exception as e:  # noqa
        sx.fail("exception-escapes-dataReceived", info=repr(e))
        return ["exc"]
    opened = len(trace.of("C", "open")) > 0
    calls = [c for c in uf.calls if c[0] == "sha1"]
    sx.check(len(calls) == 1 and bytes(calls[0][1][0]) == KEY + GUID, "client-hashes-its-own-key+GUID")
    want = _b64(sx, calls[0][2])
    got = _enc(acc)
    sx.check(sx.Iff(opened, got == want), "client-opens-iff-accept==base64(sha1(own key+GUID))")
    sx.cover("cli:open" if opened else "cli:failed")
    if not opened:
        sx.check(ep.t.closed is not None, "refused=>dropped")
    return [opened]


def client_corrupt(sx, which):
    clock, trace, ep, req = _client(sx, protocols=["a", "b"] if which.startswith("proto") else None)
    c = sx.int("octet", 0, 255)
    from symx.core import mkstr
    kw = dict(accept=ACCEPT)
    pred = None
    if which == "upgrade":
        kw["upgrade"] = mkstr([c] + [ord(x) for x in "ebsocket"])
        pred = sx.Or(c == ord("w"), c == ord("W"))
    elif which == "connection":
        kw["connection"] = mkstr([c] + [ord(x) for x in "pgrade"])
        pred = sx.Or(c == ord("u"), c == ord("U"))
    elif which == "httpv":
        kw["httpv"] = mkstr([ord(x) for x in "HTTP/1."] + [c])
        pred = c == ord("1")
    elif which == "proto-foreign":
        kw["extra"] = "Sec-WebSocket-Protocol: zzz\r\n"
        pred = False
    elif which == "proto-ok":
        kw["extra"] = "Sec-WebSocket-Protocol: b\r\n"
        pred = True
    elif which == "ext-unknown":
        kw["extra"] = "Sec-WebSocket-Extensions: x-foo\r\n"
        pred = False
    elif which == "body-octet":
        # a non-ASCII / non-UTF-8 octet inside a header value of the response
        kw["extra"] = mkstr([ord(x) for x in "X-Info: "] + [c] + [13, 10])
        pred = True
    try:
        ep.p.dataReceived(_enc(_resp(**kw)))
    except Exception as e:  # noqa
        sx.fail("exception-escapes-dataReceived", info=dict(which=which, exc=repr(e)))
        return ["exc"]
    opened = len(trace.of("C", "open")) > 0 and ep.p.state == ep.p.STATE_OPEN
    if which == "body-octet":
        # whatever the octet is, the client must either open or refuse - never crash; CR/LF/colon change the structure
        sx.check(opened or ep.t.closed is not None or ep.p.state == ep.p.STATE_CONNECTING, "opened-or-refused", info=dict(which=which))
    else:
        sx.check(sx.Iff(opened, pred), "client-opens-iff-the-response-is-valid", info=dict(which=which))
    if not opened and which != "body-octet":
        sx.check(ep.t.closed is not None, "refused=>dropped", info=dict(which=which))
    sx.cover("cli:open" if opened else "cli:failed")
    return [which, opened]


URLS = [("ws://localhost:9000", "localhost", 9000, "/"), ("ws://example.com/chat", "example.com", 80, "/chat"), ("wss://example.com:8443/a/b?x=1&y=2", "example.com", 8443, "/a/b?x=1&y=2"),
        ("ws://host:8080/chat%20room?user=alice", "host", 8080, "/chat%20room?user=alice"), ("ws://host:8080/p%C3%A4th", "host", 8080, "/p%C3%A4th"),
        ("ws://host:8080/?q=a%26b", "host", 8080, "/?q=a%26b"), ("ws://127.0.0.1:1/x", "127.0.0.1", 1, "/x"), ("ws://host/a?b", "host", 80, "/a?b"),
        # percent-encoded reserved characters, sub-delimiters, dot segments, empty segments: all of it is the application's business, verbatim
        ("ws://host:8080/files/a%2Fb/meta", "host", 8080, "/files/a%2Fb/meta"), ("ws://host/a%3Fb?c=d%23e", "host", 80, "/a%3Fb?c=d%23e"),
        ("ws://host/a+b:c@d;e=f,g~h!i*j'(k)", "host", 80, "/a+b:c@d;e=f,g~h!i*j'(k)"), ("ws://host/%7Euser/%25done/%2f", "host", 80, "/%7Euser/%25done/%2f"),
        ("ws://host//double//slash/", "host", 80, "//double//slash/"), ("ws://host/a/../b/./c", "host", 80, "/a/../b/./c"), ("ws://host/p?x=%2F&y=a+b&z=%E2%82%AC", "host", 80, "/p?x=%2F&y=a+b&z=%E2%82%AC")]


def client_request(sx, ui):
    url, host, port, resource = URLS[ui]
    clock, trace, ep, req = _client(sx, url=url)
    lines = req.split(b"\r\n")
    sx.check(lines[0] == ("GET %s HTTP/1.1" % resource).encode(), "request-line-targets-the-urls-resource-verbatim", info=dict(url=url, got=lines[0][:80]))
    sx.check(("Host: %s:%d" % (host, port)).encode() in lines, "host-header-targets-the-urls-host-and-port", info=dict(url=url))
    sx.check(b"Sec-WebSocket-Key: " + KEY in lines and b"Sec-WebSocket-Version: 13" in lines and b"Upgrade: WebSocket" in lines and b"Connection: Upgrade" in lines, "required-headers-present")
    sx.cover("cli:open")
    return [url]


def aio_handshake(sx, server, which):
    """the asyncio adapter (data_received -> receive queue -> loop callback): same admission decisions, and nothing reaches the
    event loop's exception handler"""
    loop = wslib.setup_asyncio()
    wslib.patch_env_aio(sx)
    _real_sha1()
    trace = Trace()
    who = "S" if server else "C"
    ep, f = wslib.make_endpoint_aio(sx, who, server, trace, loop)
    ep.p.connection_made(ep.t)
    wslib.run_loop(loop)
    ep.t.take()
    from symx.core import mkstr
    c = sx.int("octet", 0, 255)
    if server:
        if which == "version":
            v = sx.str("version", 2, 48, 57)
            data = _enc(_req(version=v))
            valid = sx.Or(sx.And(v.items[0] == 49, v.items[1] == 51), sx.And(v.items[0] == 48, v.items[1] == 56)) if sx.is_sym(v) else v in ("13", "08")
        elif which == "upgrade":
            data = _enc(_req(upgrade=mkstr([c] + [ord(x) for x in "ebsocket"])))
            valid = sx.Or(c == ord("w"), c == ord("W"))
        else:
            data = _enc(_req(extra=mkstr([ord(x) for x in "X-Info: "] + [c] + [13, 10])))
            valid = None
    else:
        if which == "status":
            st = sx.str("status", 3, 48, 57)
            data = _enc(_resp(status=st, accept=ACCEPT))
            valid = st == "101"
        elif which == "upgrade":
            data = _enc(_resp(accept=ACCEPT, upgrade=mkstr([c] + [ord(x) for x in "ebsocket"])))
            valid = sx.Or(c == ord("w"), c == ord("W"))
        else:
            data = _enc(_resp(accept=ACCEPT, extra=mkstr([ord(x) for x in "X-Info: "] + [c] + [13, 10])))
            valid = None
    cut = sx.choice("cut", 3)
    info = dict(server=server, which=which)
    try:
        wslib.deliver_aio(ep, loop, data, ((), (1,), (len(data) - 2,))[cut])
    except Exception as e:  # noqa
        sx.fail("exception-escapes-data_received", info=dict(info, exc=repr(e)))
        return ["exc"]
    sx.check(len(loop.verif_errors) == 0, "aio:no-exception-reaches-the-event-loop", info=dict(info, errors=loop.verif_errors[:2]))
    opened = len(trace.of(who, "open")) > 0 and ep.p.state == ep.p.STATE_OPEN
    if valid is not None:
        sx.check(sx.Iff(opened, valid), "aio:opens-iff-valid", info=info)
    if not opened:
        sx.check(ep.t.closed is not None or ep.p.state == ep.p.STATE_CONNECTING, "aio:refused=>dropped", info=info)
    sx.cover("aio")
    return [opened]


def interop(sx, combo, cut):
    """the library's own client and server complete the handshake with each other under option combinations and segmentations"""
    version, protos_c, protos_s, headers = combo
    clock = wslib.setup_twisted()
    wslib.patch_env(sx, clock, fixed_rnd=True)
    _real_sha1()
    trace = Trace()
    sel = [p for p in protos_c if p in protos_s]

    def onConnect(self, req):
        return sel[0] if sel else None
    s, sf = wslib.make_endpoint(sx, "S", True, trace, clock, None, "ws://localhost:9000", None, dict(protocols=protos_s) if protos_s else None, dict(onConnect=onConnect))
    ck = dict(protocols=protos_c) if protos_c else {}
    if headers:
        ck["headers"] = {"X-Custom": "v1"}
    c, cf = wslib.make_endpoint(sx, "C", False, trace, clock, dict(version=version), "ws://localhost:9000", None, ck or None, None)
    s.p.makeConnection(s.t)
    c.p.makeConnection(c.t)
    req = wslib.concat(c.t.take())
    wslib.deliver(s, req, (min(cut, len(req)),))
    resp = wslib.concat(s.t.take())
    wslib.deliver(c, resp, (min(cut, len(resp)),))
    ok = s.p.state == s.p.STATE_OPEN and c.p.state == c.p.STATE_OPEN
    sx.check(ok, "own-client-and-server-complete-the-handshake", info=dict(combo=combo, cut=cut))
    if ok and sel:
        sx.check(c.p.websocket_protocol_in_use == sel[0] and s.p.websocket_protocol_in_use == sel[0], "both-agree-on-the-subprotocol", info=dict(combo=combo))
    sx.cover("interop")
    return [ok]


def units(tier):
    U = [("srv/key", "server_key", dict(), dict(weight=9)), ("srv/version", "server_version", dict(), dict(weight=4)), ("srv/terminator", "server_terminator", dict())]
    for w in CORRUPT:
        U.append(("srv/corrupt/" + w, "server_corrupt", dict(which=w), dict(weight=3)))
    for cut in (0, 1, 17, 60, 150):
        U.append(("srv/presence/cut%d" % cut, "server_presence", dict(cut=cut), dict(weight=6)))
    for li in range(len(ORIGIN_LISTS)):
        U.append(("srv/origin/%d" % li, "server_origin", dict(li=li), dict(weight=5)))
    for w in ("maxconn", "proto-ok", "proto-foreign", "proto-dup", "leftover"):
        U.append(("srv/misc/" + w, "server_misc", dict(which=w)))
    for mc in (1, 2):
        U.append(("srv/limit/max%d" % mc, "server_limit", dict(maxconn=mc, steps=5 if tier == "quick" else 7), dict(weight=8)))
    U.append(("cli/status", "client_status", dict(), dict(weight=3)))
    U.append(("cli/accept", "client_accept", dict(), dict(weight=9)))
    for w in ("upgrade", "connection", "httpv", "proto-foreign", "proto-ok", "ext-unknown", "body-octet"):
        U.append(("cli/corrupt/" + w, "client_corrupt", dict(which=w), dict(weight=2)))
    for i in range(len(URLS)):
        U.append(("cli/request/%d" % i, "client_request", dict(ui=i)))
    for server in (True, False):
        for w in (("version" if server else "status"), "upgrade", "octet"):
            U.append(("aio/%s/%s" % ("S" if server else "C", w), "aio_handshake", dict(server=server, which=w), dict(weight=5, framework="asyncio")))
    combos = [(18, [], [], False), (10, [], [], False), (18, ["a"], ["a"], False), (18, ["a", "b"], ["b"], True), (18, ["a"], [], False), (12, ["x", "y"], ["y", "x"], True)]
    for k, combo in enumerate(combos):
        for cut in ((1, 40, 10 ** 6) if tier == "quick" else (1, 2, 10, 40, 100, 180, 10 ** 6)):
            U.append(("interop/%d/cut%d" % (k, cut), "interop", dict(combo=list(combo), cut=cut)))
    return U
