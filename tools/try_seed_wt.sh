#!/bin/bash
# tools/try_seed_wt.sh <seed-name> [check args...] : apply seeded/<seed-name>/patch.diff to a scratch worktree of /repo HEAD, run the property's
# check against it (VERIF_REPO_SRC), remove the worktree.  /repo itself is not touched.
S=$1; shift; ID=${S%%-*}
WT=$(mktemp -d /tmp/tswt-XXXXXX); rmdir $WT
git -C /repo worktree add -q --detach $WT HEAD || exit 9
git -C $WT apply /verif/seeded/$S/patch.diff || { echo "patch does not apply"; git -C /repo worktree remove --force $WT; exit 9; }
VERIF_REPO_SRC=$WT/src /verif/check $ID --tier quick --no-evidence "$@" 2>&1 | grep -E "VIOLATION|KNOWN-FINDING|INCONCLUSIVE|label=|-> exit" | cut -c1-${WIDTH:-400} | head -${LINES_MAX:-12}
git -C /repo worktree remove --force $WT
