"""C18: an ERROR whose keyword arguments are named 'error' or 'self' raised TypeError out of the caller's onMessage (the pending call was
never completed) - fixed; kwargs named callee/callee_authid/callee_authrole/enc_algo/forward_for are swallowed - known finding.
Run: /venv/bin/python findings/c18_kwargs_names_demo.py [tree]"""
import sys
sys.path.insert(0, (sys.argv[1] if len(sys.argv) > 1 else "/repo") + "/src")
import txaio
txaio.use_twisted()
from autobahn.wamp import message
from autobahn.wamp.protocol import BaseSession

s = BaseSession()
for key in ("error", "self", "callee", "enc_algo", "k"):
    m = message.Error(message.Call.MESSAGE_TYPE, 1, "com.other.error", args=[1], kwargs={key: 7})
    try:
        e = s._exception_from_message(m)
        print("%-9s -> %s kwargs=%r" % (key, type(e).__name__, e.kwargs), "" if e.kwargs == {key: 7} else "   <-- keyword argument lost")
    except TypeError as x:
        print("%-9s -> DEFECT: %s" % (key, x))
