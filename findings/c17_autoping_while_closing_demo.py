"""C17 genuine defect: with automatic pings configured, the ping timer keeps running after the application started the closing handshake.
_sendAutoPing() then sends nothing (sendPing() is a no-op unless OPEN) but still arms the pong timeout: a peer that answers the close
frame well within closeHandshakeTimeout is dropped earlier by the ping timer and the close is reported unclean, "WebSocket ping timeout".
Run: /venv/bin/python findings/c17_autoping_while_closing_demo.py [tree]"""
import sys
sys.path.insert(0, (sys.argv[1] if len(sys.argv) > 1 else "/repo") + "/src")
import base64, hashlib
import txaio
txaio.use_twisted()
from twisted.internet.task import Clock
from twisted.internet.address import IPv4Address
from twisted.python.failure import Failure
from twisted.internet.error import ConnectionDone
from autobahn.twisted.websocket import WebSocketServerFactory, WebSocketServerProtocol


class T:
    def __init__(self): self.out = []; self.closed = None
    def write(self, d): self.out.append(bytes(d))
    def writeSequence(self, s): self.out.extend(bytes(x) for x in s)
    def loseConnection(self): self.closed = self.closed or "lose"
    def abortConnection(self): self.closed = self.closed or "abort"
    def getPeer(self): return IPv4Address("TCP", "127.0.0.1", 1)
    getHost = getPeer
    def setTcpNoDelay(self, v): pass
    def registerProducer(self, *a): pass
    def unregisterProducer(self): pass


closes = []


class S(WebSocketServerProtocol):
    def onClose(self, wasClean, code, reason): closes.append((wasClean, code, reason))


clock = Clock()
txaio.config.loop = clock
f = WebSocketServerFactory("ws://localhost:9000", reactor=clock); f.protocol = S
f.setProtocolOptions(autoPingInterval=2, autoPingTimeout=1, closeHandshakeTimeout=6)
p = f.buildProtocol(None); t = T(); p.makeConnection(t)
key = base64.b64encode(bytes(range(16)))
p.dataReceived(b"GET / HTTP/1.1\r\nHost: localhost:9000\r\nUpgrade: websocket\r\nConnection: Upgrade\r\nSec-WebSocket-Key: " + key + b"\r\nSec-WebSocket-Version: 13\r\n\r\n")
assert p.state == p.STATE_OPEN
p.sendClose(1000, "bye")                     # t = 0: closing handshake started, deadline for the peer's reply: t = 6
dropped_at = None
while clock.seconds() < 4.0:                 # the peer answers at t = 4, two seconds before the deadline
    clock.advance(0.25)
    if t.closed and dropped_at is None:
        dropped_at = clock.seconds()
if dropped_at is None:
    p.dataReceived(b"\x88\x82\x01\x02\x03\x04" + bytes([0x03 ^ 1, 0xe8 ^ 2]))
p.connectionLost(Failure(ConnectionDone()))
print("dropped before the peer's timely close reply:", dropped_at, "| onClose:", closes)
ok = dropped_at is None and closes and closes[0][0] is True and closes[0][1] == 1000
print("ok" if ok else "DEFECT: a peer answering the close frame 2 s before closeHandshakeTimeout was dropped by the ping timer")
sys.exit(0 if ok else 1)
