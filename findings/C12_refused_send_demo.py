"""Real-code, real-zlib demonstration (pre-fix): with permessage-deflate and context takeover, a sendMessage() refused with
PayloadExceededError has already been fed through the shared compressor; a later message that repeats its content is then
compressed as back-references into data the peer never received and cannot be decoded.
Run: PYTHONPATH=<tree>/src /venv/bin/python findings/C12_refused_send_demo.py  (exit 1 = defect present)"""
import base64, hashlib, os, sys
import txaio; txaio.use_twisted()
from twisted.internet.task import Clock
clock = Clock(); txaio.config.loop = clock
from autobahn.twisted.websocket import WebSocketClientFactory, WebSocketClientProtocol, WebSocketServerFactory, WebSocketServerProtocol
from autobahn.websocket.compress import PerMessageDeflateOffer, PerMessageDeflateOfferAccept, PerMessageDeflateResponseAccept
from autobahn.exception import PayloadExceededError
class T:
    def __init__(s): s.w = []; s.closed = None
    def write(s, d): s.w.append(d)
    def loseConnection(s): s.closed = "lose"
    def abortConnection(s): s.closed = "abort"
    def getPeer(s):
        from twisted.internet.address import IPv4Address
        return IPv4Address("TCP", "127.0.0.1", 1)
    getHost = getPeer
    def setTcpNoDelay(s, v): pass
    def registerProducer(s, *a): pass
    def unregisterProducer(s): pass
got = []
class S(WebSocketServerProtocol):
    def onMessage(self, p, b): got.append(p)
sf = WebSocketServerFactory("ws://localhost:9000", reactor=clock); sf.protocol = S
sf.setProtocolOptions(perMessageCompressionAccept=lambda offers: PerMessageDeflateOfferAccept(offers[0]))
cf = WebSocketClientFactory("ws://localhost:9000", reactor=clock); cf.protocol = WebSocketClientProtocol
cf.setProtocolOptions(perMessageCompressionOffers=[PerMessageDeflateOffer()], perMessageCompressionAccept=lambda r: PerMessageDeflateResponseAccept(r))
s = sf.buildProtocol(None); st = T(); s.makeConnection(st)
c = cf.buildProtocol(None); ct = T(); c.makeConnection(ct)
s.dataReceived(b"".join(ct.w)); ct.w.clear(); c.dataReceived(b"".join(st.w)); st.w.clear()
assert c._perMessageCompress is not None
blob = os.urandom(600)
c.sendMessage(b"first", True)
c.maxMessagePayloadSize = 100
try:
    c.sendMessage(blob, True); print("not refused?!")
except PayloadExceededError:
    pass
c.maxMessagePayloadSize = 0
c.sendMessage(blob, True)
try:
    s.dataReceived(b"".join(ct.w))
except Exception as e:
    print("peer cannot decode the message after the refused send:", e); sys.exit(1)
ok = got == [b"first", blob] and st.closed is None
print("delivered intact:", ok); sys.exit(0 if ok else 1)
