"""Shared WAMP-session harness pieces: a real ApplicationSession on a recording transport."""
from symx.env import NULLLOG, Trace


def setup():
    import txaio
    txaio.use_twisted()
    from twisted.internet.task import Clock
    clock = Clock()
    txaio.config.loop = clock
    return clock


class MockTransport:
    """ITransport stand-in: records messages handed to send(); can be told to fail"""

    def __init__(self, trace, serializer=None):
        from autobahn.wamp.serializer import JsonSerializer
        from autobahn.wamp.types import TransportDetails
        self.trace = trace
        self.sent = []
        self._serializer = serializer or JsonSerializer()
        self.transport_details = TransportDetails()
        self.closed = False
        self.aborted = False
        self.fail_next = None        # exception instance to raise from the next send()
        self.session = None

    def send(self, msg):
        if self.fail_next is not None:
            e, self.fail_next = self.fail_next, None
            raise e
        self.sent.append(msg)
        self.trace.append(("T", "send", msg))

    def isOpen(self):
        return not self.closed

    @property
    def is_closed(self):
        return self.closed

    def close(self):
        self.trace.append(("T", "close"))
        self.closed = True

    def abort(self):
        self.trace.append(("T", "abort"))
        self.closed = True
        self.aborted = True

    def get_channel_id(self, t="tls-unique"):
        return b"\x00" * 32

    def lose(self, was_clean=False):
        """the transport goes away: tell the session (as the real transports do)"""
        self.closed = True
        if self.session is not None:
            s, self.session = self.session, None
            self.trace.append(("T", "lost"))
            s.onClose(was_clean)


def make_session(sx, trace, raising=None, cls_attrs=None, config=None):
    """real Twisted-flavour ApplicationSession with recording lifecycle callbacks and observers.
    raising: dict callback-name -> True to make that user callback raise"""
    from autobahn.twisted.wamp import ApplicationSession
    from autobahn.wamp import types
    raising = raising or {}

    class Rec(ApplicationSession):
        log = NULLLOG

        def onConnect(self):
            trace.append(("S", "onConnect"))
            if raising.get("onConnect"):
                raise RuntimeError("user onConnect fails")
            return ApplicationSession.onConnect(self)

        def onJoin(self, details):
            trace.append(("S", "onJoin", details.session))
            if raising.get("onJoin"):
                raise RuntimeError("user onJoin fails")

        def onLeave(self, details):
            trace.append(("S", "onLeave", details.reason))
            if raising.get("onLeave"):
                raise RuntimeError("user onLeave fails")
            return ApplicationSession.onLeave(self, details)

        def onDisconnect(self):
            trace.append(("S", "onDisconnect"))
            if raising.get("onDisconnect"):
                raise RuntimeError("user onDisconnect fails")
            return ApplicationSession.onDisconnect(self)

        def onUserError(self, fail, msg):
            trace.append(("S", "onUserError", msg))

    for k, v in (cls_attrs or {}).items():
        setattr(Rec, k, v)
    s = Rec(config or types.ComponentConfig("realm1"))
    s.log = NULLLOG
    for ev in ("connect", "join", "ready", "leave", "disconnect"):
        s.on(ev, (lambda ev: (lambda *a, **k: trace.append(("S", "ev:" + ev))))(ev))
    return s


def joined_session(sx, trace=None, session_id=1234, **kw):
    """session with transport attached and WELCOME processed; returns (clock, trace, session, transport)"""
    from autobahn.wamp import message, role
    clock = setup()
    trace = Trace() if trace is None else trace
    s = make_session(sx, trace, **kw)
    t = MockTransport(trace)
    t.session = s
    s.onOpen(t)
    roles = {"broker": role.RoleBrokerFeatures(), "dealer": role.RoleDealerFeatures()}
    s.onMessage(message.Welcome(session_id, roles))
    return clock, trace, s, t


class Outcome:
    """records how often and with what a Deferred fired"""

    def __init__(self, name, d, fired_log):
        self.name, self.results = name, []
        self.log = fired_log
        d.addCallbacks(self._ok, self._err)

    def _ok(self, r):
        self.results.append(("ok", r))
        self.log.append(self.name)
        return None

    def _err(self, f):
        self.results.append(("err", f.value))
        self.log.append(self.name)
        return None
