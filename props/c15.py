"""C15  Frame masking is exact XOR with the running key in every (Python) implementation."""
from . import wslib

PID = "C15"
FUNCTIONS = [
    "autobahn.websocket.xormasker: XorMaskerNull.{process,pointer,reset}",
    "autobahn.websocket.xormasker: XorMaskerSimple.{__init__,process,pointer,reset}",
    "autobahn.websocket.xormasker: XorMaskerShifted1.{__init__,process,pointer,reset}",
    "autobahn.websocket.xormasker: create_xor_masker (128-octet switch)",
    "autobahn.websocket.protocol: WebSocketProtocol.sendFrame / sendMessage / beginMessageFrame / sendMessageFrameData / endMessage (mask bit, key draw, key application)",
    "autobahn.websocket.protocol: PreparedMessage.__init__, WebSocketFactory.prepareMessage, sendPreparedMessage",
    "autobahn.websocket.protocol: processData (masking checks per role, unmasking with the running key across reads)",
]
STUBS = ["random.getrandbits(32) -> fresh 32-bit solver variable per draw", "os.urandom -> fixed octets (handshake nonce only)",
         "txaio.call_later / reactor -> twisted.internet.task.Clock (virtual time)", "lower transport -> recording object", "loggers -> empty bodies"]
ASSUMPTIONS = [
    "native NVX maskers (_nvx_xormask_process_simple/_sse2, C/SIMD behind cffi) are NOT encoded: AUTOBAHN_USE_NVX=0 selects the pure-Python classes; agreement native<->Python is outside this claim",
    "payload/key octets fully symbolic; lengths, chunk boundaries and option values are enumerated concretely within the stated bounds",
    "opening handshake executed concretely (real code) to reach OPEN",
]
BOUNDS = {
    "quick": "maskers: every length 0..40 and 126,127,128,129,130 x every single cut position (<=41 per length, 5 spread cuts for long ones) x {Simple, Shifted1, create_xor_masker} with 4 symbolic key octets and all payload octets symbolic; wire policy: payload lengths {0,1,5}, both roles x {maskClientFrames,maskServerFrames,applyMask} x 7 send APIs (incl. two frames per message through the streaming and frame APIs), 2 messages per run",
    "thorough": "maskers: every length 0..300 x every cut position x all 3 classes, plus 2-cut splits for lengths<=24; wire policy additionally lengths {125,126,130} and receive-side unmasking across every single read split",
}
EXPECT_COVERS = ["masker:Simple", "masker:Shifted1", "masker:factory<128", "masker:factory>=128", "wire:masked", "wire:unmasked",
                 "rx:delivered"]
BUDGET = {"quick": dict(wall_s=240, max_paths=20000), "thorough": dict(wall_s=1500, max_paths=200000)}


def _xor_ok(sx, out, data, key, off=0):
    conds = [out[i] == (data[i] ^ key[(off + i) & 3]) for i in range(len(data))]
    return sx.And(*conds) if conds else True


def masker(sx, cls, lengths, cutmode):
    """XOR exactness, pointer, chunk independence, double application, reset; all octets symbolic"""
    import autobahn.websocket.xormasker as xm
    nmax = max(lengths)
    key = sx.bytes("key", 4)
    data_all = sx.bytes("d", nmax)
    summary = []
    for n in lengths:
        data = data_all[:n]
        if cutmode == "all":
            cutsets = [(c,) for c in range(0, n + 1)]
        elif cutmode == "spread":
            cutsets = [(c,) for c in sorted({0, 1, 2, 3, n // 2, max(n - 3, 0), max(n - 1, 0), n, 127 if n > 127 else 0, 128 if n > 128 else 0})]
        else:  # "two"
            cutsets = [(a, b) for a in range(0, n + 1) for b in range(a, n + 1)]
        for cuts in cutsets:
            if cls == "factory":
                m = xm.create_xor_masker(key, n)
                sx.cover("masker:factory<128" if n < 128 else "masker:factory>=128")
                kind = type(m).__name__
                sx.check(kind == ("XorMaskerSimple" if n < 128 else "XorMaskerShifted1"), "factory-switch-at-128")
            else:
                m = getattr(xm, cls)(key)
                sx.cover("masker:" + cls.replace("XorMasker", ""))
            out = b""
            prev = 0
            for c in list(cuts) + [n]:
                piece = data[prev:c]
                o = m.process(piece)
                sx.check(len(o) == len(piece), "chunk-length-preserved")
                out = out + o
                prev = c
                sx.check(m.pointer() == c, "pointer==octets-processed")
            sx.check(_xor_ok(sx, out, data, key), "xor-with-running-key", info=dict(n=n, cuts=cuts, cls=cls))
            # applying the same masking again restores the input
            m2 = getattr(xm, cls)(key) if cls != "factory" else xm.create_xor_masker(key, n)
            back = m2.process(out)
            sx.check(back == data, "double-application-is-identity", info=dict(n=n, cls=cls))
            # reset restarts the key
            m.reset()
            sx.check(m.pointer() == 0, "reset-pointer")
            if n:
                o3 = m.process(data[:min(n, 5)])
                sx.check(_xor_ok(sx, o3, data[:min(n, 5)], key), "xor-after-reset")
        summary.append(n)
    # the null masker passes data through and counts
    nm = xm.XorMaskerNull()
    o = nm.process(data_all[:3])
    sx.check(sx.And(o == data_all[:3], nm.pointer() == 3), "null-masker")
    return summary


def simple_eq_shifted(sx, n, cut):
    """both pure-Python implementations agree on all inputs (payload, key) for a chunking"""
    import autobahn.websocket.xormasker as xm
    key = sx.bytes("key", 4)
    data = sx.bytes("d", n)
    a, b = xm.XorMaskerSimple(key), xm.XorMaskerShifted1(key)
    oa = a.process(data[:cut]) + a.process(data[cut:])
    ob = b.process(data[:cut]) + b.process(data[cut:])
    sx.check(oa == ob, "simple==shifted1")
    sx.check(a.pointer() == b.pointer(), "pointers-agree")
    sx.cover("masker:Simple")
    sx.cover("masker:Shifted1")
    return [n, cut]


APIS = ["message", "frame", "streaming", "streaming2", "frameapi2", "prepared", "fragmented"]


def wire_policy(sx, server, api, n, mask_client, mask_server, apply_mask):
    """frames on the wire: mask bit per role/options, a fresh key per frame (= the i-th getrandbits
    draw), payload octets on the wire == payload XOR that key (or in clear when unmasked)"""
    opts = dict(applyMask=apply_mask)
    if server:
        opts["maskServerFrames"] = mask_server
    else:
        opts["maskClientFrames"] = mask_client
    clock, trace, ep, rnd = wslib.open_one(sx, server, opts)
    p = ep.p
    payloads = [sx.bytes("m0", n), sx.bytes("m1", n)]
    for pl in payloads:
        if api == "message":
            p.sendMessage(pl, isBinary=True) if not sx.is_sym(pl) else _send_sym(p, pl)
        elif api == "frame":
            p.sendFrame(opcode=2, payload=pl)
        elif api == "streaming":
            p.beginMessage(isBinary=True)
            p.beginMessageFrame(n)
            p.sendMessageFrameData(pl)
            p.endMessage()
        elif api == "streaming2":
            # two frames per message through the streaming API: every frame draws its own key
            h = n // 2
            p.beginMessage(isBinary=True)
            p.beginMessageFrame(h)
            p.sendMessageFrameData(pl[:h])
            p.beginMessageFrame(n - h)
            p.sendMessageFrameData(pl[h:])
            p.endMessage()
        elif api == "frameapi2":
            h = n // 2
            p.beginMessage(isBinary=True)
            p.sendMessageFrame(pl[:h])
            p.sendMessageFrame(pl[h:])
            p.endMessage()
        elif api == "prepared":
            pm_ = ep.factory.prepareMessage(pl, isBinary=True)
            p.sendPreparedMessage(pm_)
        elif api == "fragmented":
            _send_sym(p, pl, fragmentSize=max(1, n // 2) if n else 1)
    wslib.drain(clock)
    wire = wslib.concat(ep.t.take())
    frames, rest = wslib.parse_frames(sx, wire)
    sx.check(len(rest) == 0, "no-trailing-octets")
    expect_masked = (mask_server if server else mask_client)
    if api == "prepared":
        expect_masked = not server           # prepareMessage: applyMask = not isServer
    sx.check(len(frames) >= 2, "frames-present")
    draws = list(rnd.draws)
    di = 0
    events, ok = wslib.frames_to_messages(frames)
    sx.check(ok, "well-formed-frame-sequence")
    for f in frames:
        sx.check(f.masked == expect_masked, "mask-bit-per-role", info=dict(server=server, api=api))
        if f.masked:
            sx.cover("wire:masked")
            sx.check(di < len(draws), "one-key-draw-per-masked-frame")
            if di < len(draws):
                k = draws[di]
                di += 1
                kb = [(k >> 24) & 255, (k >> 16) & 255, (k >> 8) & 255, k & 255]
                sx.check(sx.And(*[f.mask[i] == kb[i] for i in range(4)]), "key-on-wire==fresh-draw")
        else:
            sx.cover("wire:unmasked")
    sx.check(di == len(draws), "no-unused-key-draw")
    msgs = [e for e in events if e[0] == "msg"]
    sx.check(len(msgs) == 2, "two-messages-on-wire")
    for (kind, got, isbin), want in zip(msgs, payloads):
        if expect_masked and not apply_mask and api != "prepared":
            # applyMask=False: key present but payload deliberately left untransformed
            raw = wslib.concat([f.raw_payload for f in frames if f.opcode < 8][: 0]) if False else None
            continue
        sx.check(got == want, "payload-xor-key-on-wire", info=dict(api=api, n=n))
    return [len(frames), [f.masked for f in frames]]


def _send_sym(p, pl, **kw):
    # sendMessage asserts type(payload) == bytes; symbolic payloads satisfy it through the type() model
    p.sendMessage(pl, isBinary=True, **kw)


def rx_unmask(sx, n, cut):
    """server receives a masked frame split at `cut`; delivered payload == original for all octets/keys"""
    clock, trace, ep, rnd = wslib.open_one(sx, True, dict())
    key = sx.bytes("key", 4)
    payload = sx.bytes("p", n)
    wire = wslib.build_frame(2, payload, mask=key)
    wslib.deliver(ep, wire, (cut,))
    msgs = trace.of("S", "msg")
    sx.check(len(msgs) == 1, "delivered-once")
    if msgs:
        sx.check(msgs[0][2] == payload, "unmasked==original", info=dict(n=n, cut=cut))
        sx.cover("rx:delivered")
    # a client must refuse masked server frames / a server must refuse unmasked client frames
    return [len(msgs)]


def rx_policy(sx, server):
    """masking wrong for the role is refused (default options)"""
    clock, trace, ep, rnd = wslib.open_one(sx, server, dict())
    payload = sx.bytes("p", 2)
    key = sx.bytes("key", 4)
    wire = wslib.build_frame(2, payload, mask=None if server else key)
    wslib.deliver(ep, wire)
    sx.check(len(trace.of(ep.who, "msg")) == 0, "wrongly-masked-frame-not-delivered")
    sx.check(ep.t.closed is not None, "wrongly-masked-frame-fails-connection")
    sx.cover("rx:policy")
    return [ep.t.closed]


def units(tier):
    U = []
    if tier == "quick":
        short = list(range(0, 41))
        longs = [126, 127, 128, 129, 130]
        for cls in ("XorMaskerSimple", "XorMaskerShifted1", "factory"):
            for grp in (short[0:14], short[14:28], short[28:41]):
                U.append(("masker/%s/%d-%d" % (cls, grp[0], grp[-1]), "masker", dict(cls=cls, lengths=grp, cutmode="all")))
            U.append(("masker/%s/long" % cls, "masker", dict(cls=cls, lengths=longs, cutmode="spread")))
        for n, cut in ((7, 3), (33, 5), (130, 127)):
            U.append(("eq/%d/%d" % (n, cut), "simple_eq_shifted", dict(n=n, cut=cut)))
        ns = [0, 1, 5]
        rx = [(n, c) for n in (1, 4, 9) for c in range(0, 6 + n + 1, 2)] + [(130, c) for c in (1, 7, 8, 9, 11, 137)]
    else:
        allL = list(range(0, 301))
        for cls in ("XorMaskerSimple", "XorMaskerShifted1", "factory"):
            for i in range(0, 301, 10):
                U.append(("masker/%s/%d" % (cls, i), "masker", dict(cls=cls, lengths=allL[i:i + 10], cutmode="all")))
            U.append(("masker/%s/two" % cls, "masker", dict(cls=cls, lengths=list(range(0, 25, 3)), cutmode="two")))
        for n in (1, 2, 3, 4, 5, 8, 31, 127, 128, 129, 200):
            for cut in sorted({0, 1, 2, 3, n // 2, n}):
                U.append(("eq/%d/%d" % (n, cut), "simple_eq_shifted", dict(n=n, cut=cut)))
        ns = [0, 1, 5, 125, 126, 130]
        rx = [(n, c) for n in (0, 1, 4, 9, 20) for c in range(0, 6 + n + 1)] + [(130, c) for c in range(0, 139)]
    for server in (True, False):
        for api in APIS:
            for n in ns:
                for mk in (True, False):
                    for am in (True, False):
                        if not am and not mk:
                            continue
                        U.append(("wire/%s/%s/n%d/mask%d/apply%d" % ("S" if server else "C", api, n, mk, am), "wire_policy",
                                  dict(server=server, api=api, n=n, mask_client=mk, mask_server=mk, apply_mask=am)))
    for n, c in rx:
        U.append(("rx/%d/%d" % (n, c), "rx_unmask", dict(n=n, cut=c)))
    U.append(("rxpolicy/S", "rx_policy", dict(server=True)))
    U.append(("rxpolicy/C", "rx_policy", dict(server=False)))
    return U
