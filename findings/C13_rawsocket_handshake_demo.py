"""Real-code demonstration (pre-fix d7259b40 / 4cbfb179).  asyncio RawSocket server: handshake 7f f5 00 00 (unsupported serializer 5)
raised TransportLost out of data_received();  Twisted RawSocket server attached a session for a handshake with non-zero reserved octets.
Usage: PYTHONPATH=<tree>/src /venv/bin/python findings/C13_rawsocket_handshake_demo.py twisted|asyncio   (exit 1 = defect present)"""
import sys
fw = sys.argv[1] if len(sys.argv) > 1 else "twisted"
import txaio
class T:
    closed = None
    def write(s, d): pass
    def loseConnection(s): s.closed = "lose"
    abortConnection = close = abort = loseConnection
    def getPeer(s):
        from twisted.internet.address import IPv4Address
        return IPv4Address("TCP", "127.0.0.1", 1)
    getHost = getPeer
    def get_extra_info(s, n, d=None): return ("127.0.0.1", 1) if n in ("peername", "sockname") else d
opened = []
class S:
    def onOpen(s, t): opened.append(1)
    def onClose(s, w): pass
if fw == "asyncio":
    txaio.use_asyncio()
    from autobahn.asyncio import rawsocket as rs
    from autobahn.wamp.serializer import JsonSerializer
    p = rs.WampRawSocketServerFactory(S, serializers=[JsonSerializer()])(); p.connection_made(T())
    try:
        p.data_received(bytes([0x7F, 0xF5, 0, 0])); print("asyncio: unsupported serializer refused without exception"); sys.exit(0)
    except Exception as e:
        print("asyncio: exception escaped data_received:", repr(e)); sys.exit(1)
else:
    txaio.use_twisted()
    from autobahn.twisted import rawsocket as rs
    from autobahn.wamp.serializer import JsonSerializer
    f = rs.WampRawSocketServerFactory(S, serializers=[JsonSerializer()]); p = f.buildProtocol(None); t = T(); p.makeConnection(t)
    p.dataReceived(bytes([0x7F, 0xF1, 0x12, 0x34]))
    print("twisted: reserved octets 12 34 -> session attached:", bool(opened), "transport closed:", t.closed); sys.exit(1 if opened else 0)
