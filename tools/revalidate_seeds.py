#!/usr/bin/env python3
"""tools/revalidate_seeds.py [out.json] : after a fix: commit in /repo, check that every seeded change still applies to /repo's HEAD and that its
demonstration still passes without / fails with the change (scratch worktree, removed at the end)."""
import glob, json, os, subprocess, sys, tempfile
out = sys.argv[1] if len(sys.argv) > 1 else "/verif/seeded/REVALIDATION.json"
wt = tempfile.mkdtemp(prefix="rvwt-", dir="/tmp"); os.rmdir(wt)
subprocess.run(["git", "-C", "/repo", "worktree", "add", "-q", "--detach", wt, "HEAD"], check=True)
head = subprocess.run(["git", "-C", "/repo", "rev-parse", "--short", "HEAD"], capture_output=True, text=True).stdout.strip()
res = {"repo_head": head, "seeds": {}}
def demo(tree, d):
    env = dict(os.environ, PYTHONPATH=tree + "/src")
    try:
        return subprocess.run(["/venv/bin/python", d + "/demo.py"], env=env, capture_output=True, timeout=300).returncode
    except subprocess.TimeoutExpired:
        return "timeout"
try:
    for d in sorted(glob.glob("/verif/seeded/C*-m*")):
        name = os.path.basename(d)
        if not os.path.exists(d + "/demo.py"):
            continue
        r = subprocess.run(["git", "-C", wt, "apply", d + "/patch.diff"], capture_output=True, text=True)
        if r.returncode:
            res["seeds"][name] = "patch-does-not-apply"; print(name, "APPLY-FAIL", flush=True); continue
        rc1 = demo(wt, d)
        subprocess.run(["git", "-C", wt, "checkout", "--", "."])
        rc0 = demo(wt, d)
        ok = rc0 == 0 and rc1 not in (0,)
        res["seeds"][name] = dict(clean=rc0, changed=rc1, valid=ok)
        print(name, "clean", rc0, "changed", rc1, "OK" if ok else "INVALID", flush=True)
        json.dump(res, open(out, "w"), indent=1, sort_keys=True)
finally:
    subprocess.run(["git", "-C", "/repo", "worktree", "remove", "--force", wt])
