"""REX: Python `re` pattern -> z3 regular expression, with the exact semantics of `pattern.match(s)`
(anchored at the start; `$` matches at the end OR before one trailing newline; `\\Z` only at the end).

The pattern objects are read from the imported repository modules at run time; the parse tree is the
one CPython itself uses (re._parser)."""
import re
import z3

try:
    import re._parser as sre_parse
    import re._constants as sre_c
except ImportError:  # pragma: no cover
    import sre_parse
    import sre_constants as sre_c

STR = z3.StringSort()
ANY = z3.AllChar(z3.ReSort(STR))
EPS = z3.Re("")


class Unsupported(Exception):
    pass


def _chr_re(c):
    return z3.Re(chr(c))


def _range(lo, hi):
    return z3.Range(chr(lo), chr(hi))


def _category(cat, alphabet_max):
    # Python 3 str semantics, restricted to code points <= alphabet_max (stated with the claim)
    if cat == sre_c.CATEGORY_DIGIT:
        parts = [_range(48, 57)]
        if alphabet_max >= 0x0669:
            parts.append(_range(0x0660, 0x0669))      # ARABIC-INDIC digits: \d matches them
        return z3.Union(*parts) if len(parts) > 1 else parts[0]
    if cat == sre_c.CATEGORY_SPACE:
        sp = [9, 10, 11, 12, 13, 28, 29, 30, 31, 32, 0x85, 0xA0]
        sp = [c for c in sp if c <= alphabet_max]
        return z3.Union(*[_chr_re(c) for c in sp])
    if cat == sre_c.CATEGORY_WORD:
        return z3.Union(_range(48, 57), _range(65, 90), _range(97, 122), _chr_re(95))
    raise Unsupported("category %r" % (cat,))


def _in(items, alphabet_max):
    neg = False
    parts = []
    for op, av in items:
        if op == sre_c.NEGATE:
            neg = True
        elif op == sre_c.LITERAL:
            parts.append(_chr_re(av))
        elif op == sre_c.RANGE:
            parts.append(_range(av[0], av[1]))
        elif op == sre_c.CATEGORY:
            parts.append(_category(av, alphabet_max))
        else:
            raise Unsupported("IN item %r" % (op,))
    u = z3.Union(*parts) if len(parts) > 1 else parts[0]
    if neg:
        return z3.Intersect(ANY, z3.Complement(u))
    return u


def _seq(items, alphabet_max, at_end):
    """translate a sequence; `at_end` tells whether this sequence ends the whole pattern (needed for `$`)"""
    out = []
    n = len(items)
    for k, (op, av) in enumerate(items):
        last = at_end and k == n - 1
        if op == sre_c.LITERAL:
            out.append(_chr_re(av))
        elif op == sre_c.NOT_LITERAL:
            out.append(z3.Intersect(ANY, z3.Complement(_chr_re(av))))
        elif op == sre_c.ANY:
            out.append(z3.Intersect(ANY, z3.Complement(_chr_re(10))))
        elif op == sre_c.IN:
            out.append(_in(av, alphabet_max))
        elif op == sre_c.BRANCH:
            out.append(z3.Union(*[_seq(list(b), alphabet_max, last) for b in av[1]]))
        elif op == sre_c.SUBPATTERN:
            out.append(_seq(list(av[3]), alphabet_max, last))
        elif op in (sre_c.MAX_REPEAT, sre_c.MIN_REPEAT):
            lo, hi, sub = av
            r = _seq(list(sub), alphabet_max, False)
            if hi == sre_c.MAXREPEAT:
                out.append(z3.Star(r) if lo == 0 else (z3.Plus(r) if lo == 1 else z3.Concat(*([r] * lo + [z3.Star(r)]))))
            else:
                out.append(z3.Loop(r, lo, hi))
        elif op == sre_c.AT:
            if av in (sre_c.AT_BEGINNING, sre_c.AT_BEGINNING_STRING):
                if k != 0:
                    raise Unsupported("^ not at start")
            elif av == sre_c.AT_END:
                if not last:
                    raise Unsupported("$ not at end")
                out.append(z3.Option(_chr_re(10)))       # `$` under match(): end of string or before a trailing newline
            elif av == sre_c.AT_END_STRING:
                if not last:
                    raise Unsupported("\\Z not at end")
            else:
                raise Unsupported("AT %r" % (av,))
        else:
            raise Unsupported("opcode %r" % (op,))
    if not out:
        return EPS
    return z3.Concat(*out) if len(out) > 1 else out[0]


def ends_anchored(pattern):
    tree = sre_parse.parse(pattern.pattern, pattern.flags)
    items = list(tree)
    return bool(items) and items[-1][0] == sre_c.AT and items[-1][1] in (sre_c.AT_END, sre_c.AT_END_STRING)


def match_language(pattern, alphabet_max=0x10FFFF):
    """z3 regex L such that  pattern.match(s) is not None  <=>  s in L  (for patterns anchored at the end)"""
    if pattern.flags & (re.IGNORECASE | re.MULTILINE | re.DOTALL | re.VERBOSE):
        raise Unsupported("flags")
    tree = sre_parse.parse(pattern.pattern, pattern.flags)
    items = list(tree)
    if not ends_anchored(pattern):
        raise Unsupported("pattern not anchored at its end: match() accepts any continuation")
    return _seq(items, alphabet_max, True)


def find_difference(lang_a, lang_b, max_len=12, alphabet=None, timeout_ms=60000):
    """a string in lang_a but not in lang_b (None if none within the solver's verdict); returns (status, witness)"""
    s = z3.String("s")
    sol = z3.Solver()
    sol.set("timeout", timeout_ms)
    sol.add(z3.InRe(s, lang_a), z3.Not(z3.InRe(s, lang_b)), z3.Length(s) <= max_len)
    if alphabet is not None:
        sol.add(z3.InRe(s, z3.Star(alphabet)))
    r = sol.check()
    if r == z3.sat:
        return "sat", sol.model()[s].as_string()
    return str(r), None


def z3_unescape(w):
    """z3 prints non-ASCII / control characters as \\u{..}"""
    return re.sub(r"\\u\{([0-9a-fA-F]+)\}", lambda m: chr(int(m.group(1), 16)), w)
