"""C03  WAMP messages survive every serializer unchanged."""
from . import msglib

PID = "C03"
FUNCTIONS = [
    "autobahn.wamp.message: <all 25 classes>.__init__ / marshal / marshal_options|details / parse (discovered from Serializer.MESSAGE_TYPE_MAP)",
    "autobahn.wamp.message: Message.serialize / uncache (per-serializer cache)",
    "autobahn.wamp.serializer: Serializer.serialize / unserialize (type-code dispatch, isBinary check)",
    "autobahn.wamp.serializer: JsonObjectSerializer / MsgPackObjectSerializer / CBORObjectSerializer / UBJSONObjectSerializer .serialize / .unserialize (batching: 0x18 delimiter, 32-bit length prefix loop)",
    "autobahn.wamp.role: RoleFeatures classes (Hello/Welcome roles)",
]
STUBS = ["third-party codecs (json scanner, msgpack, cbor2, ubjson) -> structure-preserving table codec producing opaque blobs of chosen lengths (contract: lossless on the value space; JSON text contains no 0x18 octet); they additionally run for real on concrete boundary values",
         "flatbuffers and ujson modes excluded"]
ASSUMPTIONS = [
    "option presence is enumerated up to a cardinality bound (all single options, all pairs, everything at once); ids/counters/numeric options are free integers over their whole range",
    "compared attribute by attribute and through marshal() (Message.__eq__ compares nothing for several classes)",
    "JSON strings starting with NUL are binaries by WAMP convention",
]
BOUNDS = {
    "quick": "25 classes x {no option, each single option, all options} with free 53-bit ids and free numeric options; batches of N <= 3 blobs with lengths 0..2 per batched serializer incl. truncated/garbled batches; cache across two serializers; real codecs on boundary values (0, 1, 2^53, unicode, binary, nested) for every class with all options; JSON serializer objects with 5 different constructor option sets side by side in both orders (modes/ units); REGISTER/SUBSCRIBE URIs from a per-match-policy menu incl. empty components",
    "thorough": "additionally all pairs of options per class; N <= 4, lengths 0..3",
}
EXPECT_COVERS = ["real:modes", "real:payload", "rt:bare", "rt:single", "rt:all", "batch:ok", "batch:malformed", "cache", "real:json", "real:msgpack", "real:cbor", "real:ubjson", "binflag"]
BUDGET = {"quick": dict(wall_s=300, max_paths=20000, diff_samples=2), "thorough": dict(wall_s=2400, diff_samples=2)}


def roundtrip(sx, cname, present):
    cls = msglib.classes()[cname]
    import copy
    m, kw = msglib.build(sx, cname, present)
    snap = {n: copy.deepcopy(v) for n, v in kw.items() if isinstance(v, (dict, list)) and not any(sx.is_sym(x) for x in (v.values() if isinstance(v, dict) else v))}
    wire = m.marshal()
    info = dict(cls=cname, present=present)
    # marshalling is an observation: neither the message nor the objects it was built from change (a second message sharing them is unaffected)
    for n, v in snap.items():
        sx.check(kw[n] == v, "marshal()-does-not-mutate-the-objects-the-message-was-built-from", info=dict(info, field=n, now=repr(kw[n])[:120]))
    wire_again = m.marshal()
    sx.check(msglib.deep_eq(sx, wire_again, wire), "marshal()-twice-gives-the-same-structure", info=info)
    sx.check(wire[0] == cls.MESSAGE_TYPE, "type-code", info=info)
    try:
        m2 = cls.parse(wire)
    except Exception as e:  # noqa
        sx.fail("own-marshalled-message-rejected-by-parse", info=dict(info, exc=repr(e)))
        return ["exc"]
    sx.check(type(m2) is cls, "same-class", info=info)
    sx.check(msglib.deep_eq(sx, m2.marshal(), wire), "marshal(parse(marshal(m)))==marshal(m)", info=info)
    for n, v in kw.items():
        got = getattr(m2, n, None)
        if n == "roles":
            sx.check(sorted(got.keys()) == sorted(v.keys()) and all(msglib.deep_eq(sx, vars(got[k]), vars(v[k])) for k in v), "field-preserved", info=dict(info, field=n))
        else:
            sx.check(msglib.deep_eq(sx, got, v), "field-preserved", info=dict(info, field=n, got=repr(got)[:80]))
    for n in msglib.optional_params(cls):
        if n not in kw and n not in msglib.PT and hasattr(m, n):
            a_, b_ = getattr(m2, n), getattr(m, n)
            if n in ("args", "kwargs") and not a_ and not b_:
                continue                    # no arguments: None and the empty container are the same payload
            sx.check(msglib.deep_eq(sx, a_, b_), "absent-option-stays-absent", info=dict(info, field=n))
    sx.cover("rt:bare" if not present else ("rt:single" if len(present) == 1 else "rt:all"))
    return [cname, len(wire)]


class TableCodec:
    """structure-preserving stand-in for a codec library: obj -> opaque blob of a chosen length and back"""

    def __init__(self, tag, lens, text):
        self.tag, self.lens, self.text, self.table, self.n = tag, list(lens), text, {}, 0

    def dumps(self, obj, **kw):
        ln = self.lens[self.n % len(self.lens)] if self.lens else 1
        blob = ("%s%d:" % (self.tag, self.n) + "x" * ln)
        self.n += 1
        if not self.text:
            blob = blob.encode()
        self.table[blob if self.text else bytes(blob)] = obj
        return blob

    def loads(self, data, **kw):
        key = data if self.text else bytes(data)
        if key not in self.table:
            raise ValueError("codec: cannot decode %r" % (data,))
        return self.table[key]


_ORIG = {}


def _restore_codecs():
    """units that want the REAL codec libraries: undo a table-codec patch left behind by an earlier unit of the same interpreter
    (plain-mode replays and the differential run several units per process)"""
    import autobahn.wamp.serializer as ser
    for k, v in _ORIG.items():
        setattr(ser, k, v)


def _patch_codecs(lens):
    import autobahn.wamp.serializer as ser
    if not _ORIG:
        for k in ("_dumps", "_loads", "_packb", "_unpackb", "_cbor_dumps", "_cbor_loads", "ubjson"):
            if hasattr(ser, k):
                _ORIG[k] = getattr(ser, k)
    cod = {}
    cod["json"] = TableCodec("j", lens, True)
    ser._dumps, ser._loads = cod["json"].dumps, cod["json"].loads
    for name, d, l in (("msgpack", "_packb", "_unpackb"), ("cbor", "_cbor_dumps", "_cbor_loads")):
        if hasattr(ser, d):
            cod[name] = TableCodec(name[0], lens, False)
            setattr(ser, d, cod[name].dumps)
            setattr(ser, l, cod[name].loads)
    if hasattr(ser, "ubjson"):
        from symx.env import ModProxy
        cod["ubjson"] = TableCodec("u", lens, False)
        ser.ubjson = ModProxy(ser.ubjson, dumpb=cod["ubjson"].dumps, loadb=cod["ubjson"].loads)
    return cod


def _serializer(ser_id, batched):
    import autobahn.wamp.serializer as ser
    if ser_id == "json-hex":
        return ser.JsonSerializer(batched=batched, use_binary_hex_encoding=True)
    cls = {"json": "JsonSerializer", "msgpack": "MsgPackSerializer", "cbor": "CBORSerializer", "ubjson": "UBJSONSerializer"}[ser_id]
    if not hasattr(ser, cls):
        return None
    return getattr(ser, cls)(batched=batched)


def framing(sx, ser_id, batched, lens, fault):
    from autobahn.wamp import message
    from autobahn.wamp.exception import ProtocolError
    _patch_codecs(lens)
    s = _serializer(ser_id, batched)
    if s is None:
        return ["missing"]
    N = len(lens) if batched else 1
    msgs = [message.Published(sx.int("req%d" % i, 0, 2 ** 53), sx.int("pub%d" % i, 0, 2 ** 53)) if i % 2 == 0 else
            message.Event(sx.int("sub%d" % i, 0, 2 ** 53), 9, args=[i]) for i in range(N)]
    data = b""
    for m in msgs:
        d, is_bin = s.serialize(m)
        sx.check(is_bin == s._serializer.BINARY and is_bin == (ser_id != "json"), "is_binary-flag-matches-the-serializer", info=dict(ser=ser_id))
        data = data + d
    sx.cover("binflag")
    info = dict(ser=ser_id, batched=batched, lens=lens, fault=fault)
    if fault == "none":
        try:
            back = s.unserialize(data, ser_id != "json")
        except Exception as e:  # noqa
            sx.fail("batch-of-own-messages-rejected", info=dict(info, exc=repr(e)))
            return ["exc"]
        sx.check(len(back) == N, "batch-comes-back-as-the-same-number-of-messages", info=info)
        for a, b in zip(back, msgs):
            sx.check(type(a) is type(b) and bool(msglib.deep_eq(sx, a.marshal(), b.marshal())), "batch-order-and-content-preserved", info=info)
        sx.cover("batch:ok")
    else:
        if fault == "truncated":
            bad = data[:-1]
        elif fault == "wrong-binary-flag":
            bad = data
        elif fault == "extra-octet":
            bad = data + b"z"
        else:
            bad = b"\x00" + data
        try:
            back = s.unserialize(bad, (ser_id != "json") if fault != "wrong-binary-flag" else (ser_id == "json"))
            # a garbled batch may only be accepted if it still decodes to exactly the original messages (json: trailing garbage after the
            # last delimiter is ignored by design of split()[:-1])
            # whatever a garbled batch decodes to must be (a prefix of) the original messages - never anything invented
            same = len(back) <= N and all(type(a) is type(b) and bool(msglib.deep_eq(sx, a.marshal(), b.marshal())) for a, b in zip(back, msgs))
            sx.check(same, "garbled-batch=>error-or-only-original-messages", info=dict(info, n=len(back)))
        except ProtocolError:
            pass
        except Exception as e:  # noqa
            sx.fail("garbled-batch-raises-something-else-than-ProtocolError", info=dict(info, exc=repr(e)))
        sx.cover("batch:malformed")
    return [ser_id, batched, N]


def cache(sx, a, b):
    """serialization cache is per object serializer: never returns bytes produced for another serializer"""
    from autobahn.wamp import message
    cod = _patch_codecs([1])
    sa, sb = _serializer(a[0], a[1]), _serializer(b[0], b[1])
    if sa is None or sb is None:
        return ["missing"]
    m = message.Published(sx.int("req", 0, 2 ** 53), 5)
    da1, _ = sa.serialize(m)
    db1, _ = sb.serialize(m)
    da2, _ = sa.serialize(m)
    sx.check(bytes(da1) == bytes(da2), "cache-returns-same-bytes-for-same-serializer")
    ba = sa.unserialize(da2, a[0] != "json")
    bb = sb.unserialize(db1, b[0] != "json")
    sx.check(len(ba) == 1 and len(bb) == 1 and bool(msglib.deep_eq(sx, ba[0].marshal(), m.marshal())) and bool(msglib.deep_eq(sx, bb[0].marshal(), m.marshal())),
             "each-serializer-decodes-its-own-bytes", info=dict(a=a, b=b))
    m.uncache()
    da3, _ = sa.serialize(m)
    sx.check(len(sa.unserialize(da3, a[0] != "json")) == 1, "uncache-then-serialize-again")
    sx.cover("cache")
    return [a, b]


class _Conc:
    """boundary-value source for the real codecs (no symbolic values cross the C boundary)"""

    def __init__(self, pick):
        self.pick = pick

    def int(self, name, lo, hi):
        return {"lo": lo, "hi": hi, "mid": min(hi, max(lo, 1))}[self.pick]


def real_codec(sx, ser_id, batched, cname, pick):
    from autobahn.wamp import message
    _restore_codecs()
    s = _serializer(ser_id, batched)
    if s is None:
        return ["missing"]
    cls = msglib.classes()[cname]
    present = [p for p in msglib.optional_params(cls) if p not in msglib.PT]
    m, kw = msglib.build(_Conc(pick), cname, present)
    m_pt = None
    if any(p in msglib.PT for p in msglib.optional_params(cls)):
        m_pt, _ = msglib.build(_Conc(pick), cname, ["payload", "enc_algo", "enc_key", "enc_serializer"])
    info = dict(ser=ser_id, batched=batched, cls=cname, pick=pick)
    for mm in [x for x in (m, m_pt) if x is not None]:
        data, is_bin = s.serialize(mm)
        if batched:
            d2, _ = s.serialize(message.Published(1, 2))
            data = data + d2
        back = s.unserialize(data, is_bin)
        sx.check(len(back) == (2 if batched else 1) and type(back[0]) is cls, "real-codec:type-and-count", info=info)
        sx.check(back[0].marshal() == mm.marshal(), "real-codec:marshal-equal", info=dict(info, got=repr(back[0].marshal())[:200], want=repr(mm.marshal())[:200]))
    sx.cover("real:" + ser_id)
    return [ser_id, cname]


PAYLOAD_VALUES = [b"", b"\x00", b"ab\xff", "", "plain", "\u00e9\u4e2d", 0, -1, 1, 2 ** 53, -2 ** 53, 1.5, None, True, False, [], {}, [[]], {"k": []}]


def real_payload(sx, ser_id, batched, cname):
    """application payload boundary values (empty / one-octet binaries, empty strings and containers, integer limits, nesting) through the real
    codec in every constructor mode of the serializer: what comes back is equal in value AND type, wherever it sits in args / kwargs"""
    from autobahn.wamp import message
    _restore_codecs()
    s = _serializer(ser_id, batched)
    if s is None:
        return ["missing"]
    bad = []
    for i, v in enumerate(PAYLOAD_VALUES):
        args = [v, [v], {"n": v}]
        kwargs = {"k": v, "deep": {"l": [v, v]}}
        if cname == "Event":
            m = message.Event(7, 8, args=args, kwargs=kwargs)
        elif cname == "Call":
            m = message.Call(7, "com.myapp.proc", args=args, kwargs=kwargs)
        else:
            m = message.Error(message.Call.MESSAGE_TYPE, 7, "com.myapp.error", args=args, kwargs=kwargs)
        data, is_bin = s.serialize(m)
        if batched:
            data = data + s.serialize(m)[0]
        back = s.unserialize(data, is_bin)
        ok = len(back) == (2 if batched else 1) and all(_same_typed(b.args, args) and _same_typed(b.kwargs, kwargs) for b in back)
        if not ok:
            bad.append((repr(v), repr(back[0].args)[:80] if back else None))
    sx.check(not bad, "real-codec:payload-values-and-types-preserved", info=dict(ser=ser_id, batched=batched, cls=cname, bad=bad[:4]))
    sx.cover("real:payload")
    return [ser_id, len(bad)]


JSON_MODES = ["default", "hex", "decstr", "decfloat", "batched"]


def _json_mode(ser, mode):
    if mode == "default":
        return ser.JsonSerializer()
    if mode == "batched":
        return ser.JsonSerializer(batched=True)
    if mode == "hex":
        return ser.JsonSerializer(use_binary_hex_encoding=True)
    if mode == "decstr":
        return ser.JsonSerializer(use_decimal_from_str=True)
    return ser.Serializer(ser.JsonObjectSerializer(use_decimal_from_float=True))


def json_modes(sx, first, second):
    """serializer objects constructed with different options live side by side in one process (a router with several listeners, a client
    with several connections): what one of them decodes first must not change what another one returns afterwards"""
    import decimal
    import autobahn.wamp.serializer as ser
    from autobahn.wamp import message
    _restore_codecs()
    args = [1.5, 0.1, "plain", b"\x00ab", 7, [2.25], {"f": 3.5}]
    kwargs = {"x": 0.5, "s": "t", "b": b"\xff"}
    m = message.Event(7, 8, args=args, kwargs=kwargs)
    bad = []
    for mode in (first, second, first):
        s = _json_mode(ser, mode)
        data, is_bin = s.serialize(m)
        back = s.unserialize(data, is_bin)
        if mode == "decfloat":
            D = decimal.Decimal
            want_a = [D("1.5"), D("0.1"), "plain", b"\x00ab", 7, [D("2.25")], {"f": D("3.5")}]
            want_k = {"x": D("0.5"), "s": "t", "b": b"\xff"}
        else:
            want_a, want_k = args, kwargs
        if not (len(back) == 1 and _same_typed(back[0].args, want_a) and _same_typed(back[0].kwargs, want_k)):
            bad.append((mode, repr(back[0].args)[:120] if back else None))
    sx.check(not bad, "real-codec:serializer-objects-with-different-options-do-not-influence-each-other", info=dict(first=first, second=second, bad=bad[:3]))
    sx.cover("real:modes")
    return [first, second, len(bad)]


def _same_typed(a, b):
    if type(a) is not type(b) and not (isinstance(a, (list, tuple)) and isinstance(b, (list, tuple))):
        return False
    if isinstance(a, (list, tuple)):
        return len(a) == len(b) and all(_same_typed(x, y) for x, y in zip(a, b))
    if isinstance(a, dict):
        return set(a) == set(b) and all(_same_typed(a[k], b[k]) for k in a)
    return a == b


def units(tier):
    U = []
    q = tier == "quick"
    import itertools
    for ser_id in ("json", "json-hex", "msgpack", "cbor", "ubjson"):
        for batched in (False, True):
            for cname in (("Event",) if q else ("Event", "Call", "Error")):
                U.append(("payload/%s/%s/%s" % (ser_id, "b" if batched else "u", cname), "real_payload", dict(ser_id=ser_id, batched=batched, cname=cname)))
    for a in JSON_MODES:
        for b in JSON_MODES:
            if a != b:
                U.append(("modes/%s-%s" % (a, b), "json_modes", dict(first=a, second=b)))
    C = msglib.classes()
    for cname, cls in sorted(C.items()):
        opts = msglib.optional_params(cls)
        sets = [[]] + [[o] for o in opts]
        plain = [o for o in opts if o not in msglib.PT]
        if len(plain) > 1:
            sets.append(plain)
        if any(o in msglib.PT for o in opts):
            sets.append([o for o in opts if o not in ("args", "kwargs")])
        if not q:
            sets += [list(p) for p in itertools.combinations(opts, 2)]
        for i in range(0, len(sets), 6 if q else 12):
            for present in sets[i:i + (6 if q else 12)]:
                U.append(("rt/%s/%s" % (cname, "+".join(present) or "-"), "roundtrip", dict(cname=cname, present=present)))
    for ser_id in ("json", "msgpack", "cbor", "ubjson"):
        for batched in (False, True):
            lensets = [[1]] if not batched else ([[0], [2, 0], [1, 2, 0], [0, 0]] if q else [[0], [3], [2, 0], [0, 3], [1, 2, 0], [0, 0, 0], [3, 1, 0, 2]])
            for lens in lensets:
                for fault in ("none", "truncated", "wrong-binary-flag", "extra-octet", "leading-garbage"):
                    U.append(("frame/%s/%s/%s/%s" % (ser_id, "b" if batched else "u", "-".join(map(str, lens)), fault), "framing",
                              dict(ser_id=ser_id, batched=batched, lens=lens, fault=fault)))
    for a, b in ((("json", False), ("msgpack", False)), (("json", True), ("json", False)), (("cbor", False), ("cbor", True)), (("msgpack", True), ("ubjson", False))):
        U.append(("cache/%s%d-%s%d" % (a[0], a[1], b[0], b[1]), "cache", dict(a=list(a), b=list(b))))
    for ser_id in ("json", "msgpack", "cbor", "ubjson"):
        for batched in (False, True):
            for cname in sorted(C):
                for pick in (("hi",) if q else ("lo", "mid", "hi")):
                    U.append(("real/%s/%s/%s/%s" % (ser_id, "b" if batched else "u", cname, pick), "real_codec",
                              dict(ser_id=ser_id, batched=batched, cname=cname, pick=pick)))
    return U
