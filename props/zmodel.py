"""Reference stateful codec model standing in for zlib.compressobj / zlib.decompressobj.

Real deflate streams are outside solver reach (C library, input-dependent loops).  What the repository
code must get right around them is *state handling*: which (de)compressor object is used for which
message, when it is reset (no-context-takeover), window sizes per direction, the 4-octet sync-flush
tail strip/re-append, and size caps.  The model makes exactly those things observable:

 compressobj(level, method, wbits, memlevel): a context with a unique id; the k-th message compressed in
   it is emitted as   [0xC0|w, ctx, k, len] + payload + 00 00 ff ff      (w = -wbits, payload may be symbolic)
   (worst case of context take-over: message k>0 is only decodable after messages 0..k-1 of the same context; message 0 of a
   fresh context is decodable by any decoder, as a deflate stream from a reset compressor references nothing earlier)
 decompressobj(wbits): decodes incrementally, any chunking; raises zlib.error when the encoder's window
   exceeds its own, when the message is not the next one of the context it follows, or on malformed
   framing; honours max_length (rest goes to unconsumed_tail, as documented for zlib).
"""
import zlib as _zlib

Z_SYNC_FLUSH = _zlib.Z_SYNC_FLUSH
TAIL = b"\x00\x00\xff\xff"


class ZModel:
    """stands in for the `zlib` module inside compress_deflate.py"""
    Z_DEFAULT_COMPRESSION = _zlib.Z_DEFAULT_COMPRESSION
    DEFLATED = _zlib.DEFLATED
    Z_SYNC_FLUSH = _zlib.Z_SYNC_FLUSH
    error = _zlib.error

    def __init__(self):
        self.next_ctx = 1
        self.log = []          # ("compressobj", wbits, memlevel) / ("decompressobj", wbits)

    def compressobj(self, level=-1, method=_zlib.DEFLATED, wbits=15, memLevel=8, *a):
        ctx = self.next_ctx
        self.next_ctx += 1
        self.log.append(("compressobj", wbits, memLevel))
        return _Comp(self, ctx, wbits, memLevel)

    def decompressobj(self, wbits=15):
        self.log.append(("decompressobj", wbits))
        return _Decomp(self, wbits)


class _Comp:
    def __init__(self, z, ctx, wbits, mem):
        if not (-15 <= wbits <= -9):
            raise ValueError("Invalid initialization option")
        self.z, self.ctx, self.w, self.seq, self.buf = z, ctx, -wbits, 0, b""

    def compress(self, data):
        self.buf = self.buf + data
        return b""

    def flush(self, mode=_zlib.Z_FINISH):
        n = len(self.buf)
        assert n < 256
        out = bytes([0xC0 | self.w, self.ctx, self.seq, n]) + self.buf + TAIL
        self.buf = b""
        self.seq += 1
        return out


class _Decomp:
    def __init__(self, z, wbits):
        if not (-15 <= wbits <= -9):
            raise ValueError("Invalid initialization option")
        self.w = -wbits
        self.ctx = None
        self.next_seq = 0
        self.pending = b""         # undecoded input
        self.unconsumed_tail = b""
        self.unused_data = b""
        self.hdr = None            # (n,) once header parsed
        self.out_left = 0
        self.tail_left = 0

    def decompress(self, data, max_length=0):
        buf = self.pending + data
        self.pending = b""
        out = b""
        pos = 0
        limit = None if not max_length else max_length
        while pos < len(buf):
            if limit is not None and len(out) >= limit:
                break
            if self.hdr is None and self.tail_left == 0:
                if len(buf) - pos < 4:
                    break
                tag, ctx, seq, n = buf[pos], buf[pos + 1], buf[pos + 2], buf[pos + 3]
                if (tag & 0xF0) != 0xC0:
                    raise _zlib.error("Error -3 while decompressing data: invalid block type")
                if (tag & 0x0F) > self.w:
                    raise _zlib.error("Error -3 while decompressing data: invalid window size")
                if seq == 0:
                    # first message of a fresh compression context: references nothing earlier, any decoder state can decode it
                    self.ctx = ctx
                elif self.ctx is None or ctx != self.ctx or seq != self.next_seq:
                    # a message that may reference earlier ones needs a decoder that has seen exactly those
                    raise _zlib.error("Error -3 while decompressing data: invalid distance too far back")
                self.next_seq = seq + 1
                self.hdr = (n,)
                self.out_left = n
                pos += 4
                if n == 0:
                    self.hdr = None
                    self.tail_left = 4
                continue
            if self.hdr is not None:
                take = min(self.out_left, len(buf) - pos)
                if limit is not None:
                    take = min(take, limit - len(out))
                out = out + buf[pos:pos + take]
                pos += take
                self.out_left -= take
                if self.out_left == 0:
                    self.hdr = None
                    self.tail_left = 4
                continue
            # sync-flush tail
            k = 4 - self.tail_left
            if buf[pos] != TAIL[k]:
                raise _zlib.error("Error -3 while decompressing data: invalid stored block lengths")
            pos += 1
            self.tail_left -= 1
        rest = buf[pos:]
        if limit is not None and len(out) >= limit and len(rest):
            self.unconsumed_tail = rest
        else:
            self.unconsumed_tail = b""
            self.pending = rest
        return out

    def flush(self):
        return b""
