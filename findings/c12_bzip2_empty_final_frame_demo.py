"""C12 genuine defect: permessage-bzip2 - a compressed message whose final frame is empty (RFC 6455 allows it; the library's own
sendMessage(fragmentSize=k) produces it whenever the compressed length is a multiple of k) makes the receiver call
BZ2Decompressor.decompress(b"") after the end of the stream: EOFError escapes dataReceived() and the message is lost.
Run: /venv/bin/python findings/c12_bzip2_empty_final_frame_demo.py [tree]"""
import bz2
import sys
sys.path.insert(0, (sys.argv[1] if len(sys.argv) > 1 else "/repo") + "/src")
import txaio
txaio.use_twisted()
from twisted.internet.task import Clock
from twisted.internet.address import IPv4Address
from autobahn.twisted.websocket import WebSocketClientFactory, WebSocketClientProtocol, WebSocketServerFactory, WebSocketServerProtocol
from autobahn.websocket.compress import PerMessageBzip2Offer, PerMessageBzip2OfferAccept, PerMessageBzip2Response, PerMessageBzip2ResponseAccept


class T:
    def __init__(self): self.out = []; self.closed = False
    def write(self, d): self.out.append(bytes(d))
    def writeSequence(self, s): self.out.extend(bytes(x) for x in s)
    def loseConnection(self): self.closed = True
    abortConnection = loseConnection
    def getPeer(self): return IPv4Address("TCP", "127.0.0.1", 1)
    getHost = getPeer
    def setTcpNoDelay(self, v): pass
    def registerProducer(self, *a): pass
    def unregisterProducer(self): pass
    def take(self):
        o = b"".join(self.out); self.out = []; return o


got = []


class S(WebSocketServerProtocol):
    def onMessage(self, p, b): got.append(p)


clock = Clock()
sf = WebSocketServerFactory("ws://localhost:9000", reactor=clock); sf.protocol = S
sf.setProtocolOptions(perMessageCompressionAccept=lambda offers: next((PerMessageBzip2OfferAccept(o) for o in offers if isinstance(o, PerMessageBzip2Offer)), None))
cf = WebSocketClientFactory("ws://localhost:9000", reactor=clock); cf.protocol = WebSocketClientProtocol
cf.setProtocolOptions(perMessageCompressionOffers=[PerMessageBzip2Offer()], perMessageCompressionAccept=lambda r: PerMessageBzip2ResponseAccept(r) if isinstance(r, PerMessageBzip2Response) else None)
s = sf.buildProtocol(None); c = cf.buildProtocol(None)
st, ct = T(), T()
s.makeConnection(st); c.makeConnection(ct)
s.dataReceived(ct.take()); c.dataReceived(st.take())
payload = next(b"hello world " * 3 + b"x" * i for i in range(40) if len(bz2.compress(b"hello world " * 3 + b"x" * i, 9)) % 2 == 0)
n = len(bz2.compress(payload, 9))
k = next(k for k in range(2, n) if n % k == 0)
print("compressed length", n, "-> fragmentSize", k)
c.sendMessage(payload, isBinary=True, fragmentSize=k)
clock.advance(0.1)
try:
    s.dataReceived(ct.take())
    print("delivered:", got == [payload])
    sys.exit(0 if got == [payload] else 1)
except Exception as e:
    print("DEFECT: exception out of dataReceived:", type(e).__name__, e)
    sys.exit(1)
