"""C19  Authentication signatures interoperate and mutual authentication is enforced."""
PID = "C19"
FUNCTIONS = [
    "autobahn.wamp.auth: compute_totp / check_totp (RFC 6238 composition: time step, big-endian counter, dynamic truncation, modulus, zero padding)",
    "autobahn.wamp.auth: pbkdf2 / derive_key / compute_wcs / AuthWampCra.on_challenge",
    "autobahn.wamp.auth: AuthScram.authextra / on_challenge / on_welcome (RFC 5802 message layout, client proof, server-signature check)",
    "autobahn.wamp.cryptosign: _format_challenge (challenge XOR channel binding), CryptosignKey.sign_challenge path",
    "autobahn.util: xor",
]
STUBS = ["hmac.new(...).digest(), hashlib.new/sha256, PBKDF2HMAC.derive, argon2 hash_secret, Ed25519 signing -> uninterpreted functions: fresh free octets per distinct (algorithm, key, message, parameters), memoised; every call is logged so the oracle checks WHAT is hashed/signed",
         "hmac.compare_digest -> octet-wise equality", "time.time -> free integer", "os.urandom -> fixed octets", "base64 / hex codecs modelled exactly (6-bit regrouping, alphabet tables)"]
ASSUMPTIONS = [
    "that HMAC/SHA/PBKDF2/Argon2id/Ed25519 as implemented by OpenSSL/libsodium/argon2-cffi produce standard outputs is outside solver reach (RFC vectors stay with the existing tests); decided here is the composition around them for ALL digests/keys/challenges",
]
BOUNDS = {"quick": "TOTP: every 20-octet digest (free), every time 0..2^40, offsets -1,0,1; CRA: free 32-octet digests, key lengths {16,32,57,58,64,96}, salted and unsalted; SCRAM: free 32-octet KDF/HMAC/hash outputs, every 32-octet alleged server signature, both KDFs, WELCOME with/without prior CHALLENGE; cryptosign: all 32+32 octets of challenge and channel id; one SCRAM authenticator answering two challenges that differ in memory / iterations / salt / nonce; _sign_challenge over all 64+32 octets, signer answering at once or later, Twisted and asyncio",
          "thorough": "same plus key lengths 1..128"}
EXPECT_COVERS = ["totp", "totp:check", "cra:salted", "cra:plain", "scram:proof", "scram:welcome-accept", "scram:welcome-reject", "scram:no-challenge", "scram:no-signature", "cryptosign:bound", "cryptosign:unbound", "cryptosign:signed", "scram:twice"]
BUDGET = {"quick": dict(wall_s=300, max_paths=20000, diff_samples=3), "thorough": dict(wall_s=1800)}

B64 = b"ABCDEFGHIJKLMNOPQRSTUVWXYZabcdefghijklmnopqrstuvwxyz0123456789+/"


class UF:
    """uninterpreted functions with a call log.  Every call gets fresh free output octets (named by call order); functional
    consistency is enforced by Ackermann constraints: equal inputs => equal outputs (in concrete runs: the earlier output is reused)."""

    def __init__(self, sx):
        self.sx, self.calls, self.n = sx, [], 0
        self.same = {}       # id(SymBytes args tuple) -> reuse when the very same objects are passed again

    def _eq(self, a, b):
        from symx.core import SymBytes
        if isinstance(a, (bytes, bytearray, SymBytes)) and isinstance(b, (bytes, bytearray, SymBytes)):
            return a == b
        return a == b if type(a) is type(b) or isinstance(a, (int, str)) else False

    def apply(self, name, n, *args):
        from symx.core import CTX, tobool
        import z3
        for (nm, a2, out) in self.calls:
            if nm == name and len(a2) == len(args) and all(x is y for x, y in zip(a2, args)):
                self.calls.append((name, args, out))
                return out
        out = self.sx.bytes("%s#%d" % (name, self.n), n)
        self.n += 1
        for (nm, a2, o2) in self.calls:
            if nm != name or len(a2) != len(args) or len(o2) != n:
                continue
            eqs = [self._eq(x, y) for x, y in zip(a2, args)]
            if any(e is False for e in eqs):
                continue
            if all(e is True for e in eqs):
                out = o2                                   # concretely the same inputs: same output
                break
            if CTX.active:
                cond = z3.And(*[tobool(e) for e in eqs if e is not True])
                CTX.solver.add(z3.Implies(cond, tobool(out == o2)))
                CTX.model = None
        self.calls.append((name, args, out))
        return out


def _install(sx):
    """patch the crypto names used by autobahn.wamp.auth with uninterpreted functions"""
    import hashlib
    import hmac as real_hmac
    import autobahn.wamp.auth as auth
    from symx.env import ModProxy
    uf = UF(sx)
    dsize = {"sha1": 20, "sha256": 32}

    def algname(d):
        n = getattr(d, "__name__", None) or str(d)
        return n.replace("openssl_", "")

    class H:
        def __init__(self, key, msg, digestmod):
            self.key, self.msg, self.alg = key, msg, algname(digestmod)

        def digest(self):
            return uf.apply("hmac-" + self.alg, dsize[self.alg], self.key, self.msg)

    class Hash:
        def __init__(self, alg, data):
            self.alg, self.data = alg, data

        def digest(self):
            return uf.apply("hash-" + self.alg, dsize[self.alg], self.data)

    auth.hmac = ModProxy(real_hmac, new=lambda key, msg=None, digestmod=None: H(key, msg, digestmod), compare_digest=lambda a, b: a == b)
    auth.hashlib = ModProxy(hashlib, new=lambda alg, data=b"": Hash(alg, data), sha256=hashlib.sha256, sha1=hashlib.sha1)

    class KDF:
        def __init__(self, algorithm=None, length=None, salt=None, iterations=None, backend=None):
            self.p = (type(algorithm).__name__, length, salt, iterations)

        def derive(self, data):
            return uf.apply("pbkdf2", self.p[1], data, self.p[2], self.p[0], self.p[3])

    auth.PBKDF2HMAC = KDF

    def hash_secret(secret, salt, time_cost, memory_cost, parallelism, hash_len, type, version):
        raw = uf.apply("argon2id", 32, secret, salt, time_cost, memory_cost, parallelism, hash_len, str(type), version)
        h = _b64(sx, raw)[:43]          # PHC strings carry the hash in unpadded base64
        # argon2-cffi returns the PHC string; the code keeps the last '$' field
        return b"$argon2id$v=19$m=%d,t=%d,p=1$c2FsdA$" % (memory_cost, time_cost) + h

    auth.hash_secret = hash_secret
    return uf, auth


def _b64(sx, data):
    """independent base64 (RFC 4648) over possibly symbolic octets -> octets"""
    from symx.core import mkbytes, select_table, SymInt
    out = []
    items = list(data)
    for i in range(0, len(items), 3):
        ch = items[i:i + 3]
        pad = 3 - len(ch)
        ch = ch + [0] * pad
        v = (SymInt.lift(ch[0]) << 16) | (SymInt.lift(ch[1]) << 8) | ch[2] if any(hasattr(x, "e") for x in ch) else (ch[0] << 16) | (ch[1] << 8) | ch[2]
        sext = [(v >> 18) & 63, (v >> 12) & 63, (v >> 6) & 63, v & 63]
        enc = [select_table(B64, s) if hasattr(s, "e") else B64[s] for s in sext]
        if pad:
            enc[4 - pad:] = [61] * pad
        out.extend(enc)
    return mkbytes(out)


class _StepTime:
    """time source t = 30*s + r (0 <= r < 30) handed out with its decomposition: int(t) // 30 is s.
    Lemma used (discharged once per run with z3 over the integers, see step_lemma): (30*s + r) div 30 == s."""

    @staticmethod
    def make(sx):
        from symx.core import SymInt
        s = sx.int("step", 2, 2 ** 35)
        r = sx.int("second", 0, 29)
        t = s * 30 + r

        class T(SymInt):
            __slots__ = ()

            def __floordiv__(self, c):
                if c == 30:
                    return s
                return SymInt.__floordiv__(self, c)
        if isinstance(t, SymInt):
            t = T(t.e, t.lo, t.hi, t.w)
        return t, s


def step_lemma(sx):
    import z3
    s, r = z3.Ints("s r")
    sol = z3.Solver()
    sol.add(s >= 0, r >= 0, r < 30, (30 * s + r) / 30 != s)
    sx.check(sol.check() == z3.unsat, "lemma:(30*s+r) div 30 == s")
    sx.cover("totp")
    return []


def totp(sx):
    import base64
    import struct
    uf, auth = _install(sx)
    from symx.env import ModProxy
    import time as real_time
    t, s_ = _StepTime.make(sx)
    auth.time = ModProxy(real_time, time=lambda: t)
    secret = "MFRGGZDFMZTWQ2LK"
    off = [-1, 0, 1][sx.choice("offset", 3)]
    code = auth.compute_totp(secret, off)
    calls = [c for c in uf.calls if c[0] == "hmac-sha1"]
    sx.check(len(calls) == 1, "one-hmac-sha1")
    name, (key, msg), digest = calls[0]
    sx.check(bytes(key) == base64.b32decode(secret), "hmac-key==b32decode(secret)")
    step = s_ + off
    want_msg = [(step >> (8 * (7 - i))) & 255 for i in range(8)]
    sx.check(len(msg) == 8 and bool(sx.And(*[msg[i] == want_msg[i] for i in range(8)])), "hmac-message==big-endian-64-bit-time-step")
    # RFC 4226 dynamic truncation, for EVERY digest
    o = digest[19] & 15
    ref = 0
    for k in range(16):
        v = ((digest[k] & 0x7F) << 24) | (digest[k + 1] << 16) | (digest[k + 2] << 8) | digest[k + 3] if k + 3 < 20 else 0
        ref = sx.ite(o == k, v, ref)
    sx.check(len(code) == 6, "six-digits")
    if hasattr(code, "source"):
        sx.check(code.width == 6, "zero-padded-to-6-digits")
        org = getattr(code.source, "origin", None)
        sx.check(org is not None and org[0] == "mod" and org[2] == 1000000, "code = value mod 10^6")
        if org:
            sx.check(org[1] == ref, "value == dynamic truncation of the digest (offset nibble, 31-bit mask)")
    else:
        sx.check(int(code) == ref % 1000000, "code==Truncate(HMAC) mod 10^6")
    sx.cover("totp")
    return []


def totp_check(sx):
    uf, auth = _install(sx)
    from symx.env import ModProxy
    import time as real_time
    t, s_ = _StepTime.make(sx)
    auth.time = ModProxy(real_time, time=lambda: t)
    secret = "MFRGGZDFMZTWQ2LK"
    ticket = sx.str("ticket", 6, 48, 57)
    ok = auth.check_totp(secret, ticket)
    codes = [auth.compute_totp(secret, o) for o in (0, 1, -1)]
    sx.check(sx.Iff(ok, sx.Or(*[ticket == c for c in codes])), "ticket-accepted-iff-it-is-the-code-of-step-0/+1/-1")
    sx.cover("totp:check")
    return []


def cra(sx, salted, keylen):
    from autobahn.wamp import types
    uf, auth = _install(sx)
    a = auth.AuthWampCra(authid="joe", secret="secret-ü")
    extra = {"challenge": '{"nonce":"abc","authid":"joe"}'}
    if salted:
        extra.update(salt="salt123", iterations=1000, keylen=keylen)
    sig = a.on_challenge(None, types.Challenge("wampcra", extra))
    hm = [c for c in uf.calls if c[0] == "hmac-sha256"]
    sx.check(len(hm) == 1, "one-hmac-sha256")
    name, (key, msg), digest = hm[0]
    sx.check(bytes(msg) == extra["challenge"].encode("utf8"), "hmac-message==challenge")
    if salted:
        kd = [c for c in uf.calls if c[0] == "pbkdf2"]
        sx.check(len(kd) == 1, "one-pbkdf2")
        _, (data, salt, alg, iters), dk = kd[0]
        sx.check(bytes(data) == "secret-ü".encode("utf8") and bytes(salt) == b"salt123" and alg == "SHA256" and iters == 1000 and len(dk) == keylen, "pbkdf2(secret, salt, iterations, keylen) with SHA-256")
        sx.check(key == _b64(sx, dk), "hmac-key==base64(PBKDF2 output) (single line, no whitespace)", info=dict(keylen=keylen))
        sx.cover("cra:salted")
    else:
        sx.check(bytes(key) == "secret-ü".encode("utf8"), "hmac-key==secret")
        sx.cover("cra:plain")
    want = _b64(sx, digest)
    got = sig.encode("ascii") if isinstance(sig, str) else (sig.encode("ascii") if hasattr(sig, "encode") else sig)
    sx.check(got == want, "signature==base64(HMAC-SHA256(key, challenge))")
    return [salted, keylen]


def scram(sx, kdf, phase):
    from autobahn.wamp import types
    uf, auth = _install(sx)
    import os
    from symx.env import ModProxy
    auth.os = ModProxy(os, urandom=lambda n: bytes(range(n)))

    class Sess:
        class log:
            @staticmethod
            def error(*a, **k):
                pass
            info = error
    a = auth.AuthScram(authid="joe", password="pässword")
    nonce = a.authextra["nonce"]
    if phase == "no-challenge":
        # a WELCOME that was never preceded by a CHALLENGE must not be accepted
        try:
            # the signature anyone can compute when no CHALLENGE was processed: HMAC(HMAC(b"", "Server Key"), b"")
            import hmac as _h, hashlib as _hl, base64 as _b
            forged = _b.b64encode(_h.new(_h.new(b"", b"Server Key", _hl.sha256).digest(), b"", _hl.sha256).digest()).decode()
            r = a.on_welcome(Sess, {"scram_server_signature": forged})
            sx.check(r is not None, "WELCOME-without-CHALLENGE-is-refused", info=repr(r))
        except Exception:
            pass
        sx.cover("scram:no-challenge")
        return []
    extra = {"nonce": nonce + "srv", "kdf": kdf, "salt": "c2FsdHNhbHQ=", "iterations": 4096}
    if kdf == "argon2id-13":
        extra["memory"] = 512
    try:
        proof = a.on_challenge(Sess, types.Challenge("scram", extra))
    except Exception as e:  # noqa
        sx.fail("on_challenge-raises-for-a-valid-CHALLENGE", info=dict(kdf=kdf, exc=repr(e)), known=[("C19-scram-pbkdf2-str-salt", kdf == "pbkdf2")])
        return ["exc"]
    if phase == "no-signature":
        # mutual authentication: a WELCOME that does not carry the server signature at all must not be accepted either
        for ax in (None, {}, {"other": 1}, {"scram_server_signature": None}, {"scram_server_signature": ""}):
            try:
                r = a.on_welcome(Sess, ax)
                accepted = r is None
            except Exception:
                accepted = False          # an exception out of on_welcome makes the session send ABORT(wamp.error.cannot_authenticate): protocol.py Welcome branch, error()
            sx.check(not accepted, "WELCOME-without-server-signature-is-refused", info=dict(authextra=repr(ax)))
        sx.cover("scram:no-signature")
        return [kdf]
    am = "n=joe,r=%s,r=%s,s=%s,i=4096,c=,r=%s" % (nonce, nonce + "srv", "c2FsdHNhbHQ=", nonce + "srv")
    sx.check(bytes(a._auth_message) == am.encode("ascii"), "auth-message-layout(RFC 5802)", info=dict(got=repr(a._auth_message)))
    sp = a._salted_password
    ck = [c for c in uf.calls if c[0] == "hmac-sha256" and bytes(c[1][1]) == b"Client Key"]
    sx.check(len(ck) == 1 and ck[0][1][0] is sp, "ClientKey=HMAC(SaltedPassword,'Client Key')")
    client_key = ck[0][2]
    sk = [c for c in uf.calls if c[0] == "hash-sha256"]
    sx.check(len(sk) == 1 and sk[0][1][0] is client_key, "StoredKey=H(ClientKey)")
    cs = [c for c in uf.calls if c[0] == "hmac-sha256" and c[1][0] is sk[0][2]]
    sx.check(len(cs) == 1 and bytes(cs[0][1][1]) == am.encode("ascii"), "ClientSignature=HMAC(StoredKey,AuthMessage)")
    from symx.core import mkbytes
    want = _b64(sx, mkbytes([client_key[i] ^ cs[0][2][i] for i in range(32)]))
    sx.check(proof == want, "ClientProof=base64(ClientKey XOR ClientSignature)")
    sx.cover("scram:proof")
    # server signature: accepted iff equal to HMAC(HMAC(SaltedPassword,'Server Key'), AuthMessage) - for EVERY alleged signature
    # (given as free base64 text: 43 alphabet characters + '=' decode onto all 32-octet strings)
    from symx.instr import m_b64decode
    from symx.core import mkstr
    chars = [sx.int("sig[%d]" % i, 43, 122) for i in range(43)]
    for ch in chars:
        sx.assume(sx.Or(sx.And(ch >= 65, ch <= 90), sx.And(ch >= 97, ch <= 122), sx.And(ch >= 48, ch <= 57), ch == 43, ch == 47))
    text = mkstr(chars + [61])
    alleged = m_b64decode(text)
    r = a.on_welcome(Sess, {"scram_server_signature": text})
    srvk = [c for c in uf.calls if c[0] == "hmac-sha256" and bytes(c[1][1]) == b"Server Key"]
    sx.check(len(srvk) == 1 and srvk[0][1][0] is sp, "ServerKey=HMAC(SaltedPassword,'Server Key')")
    ss = [c for c in uf.calls if c[0] == "hmac-sha256" and c[1][0] is srvk[0][2]]
    sx.check(len(ss) >= 1 and bytes(ss[0][1][1]) == am.encode("ascii"), "ServerSignature=HMAC(ServerKey,AuthMessage)")
    sx.check(sx.Iff(r is None, alleged == ss[0][2]), "WELCOME-accepted-iff-server-signature-is-exactly-right")
    sx.cover("scram:welcome-accept" if r is None else "scram:welcome-reject")
    return [kdf]


def scram_twice(sx, vary):
    """one authenticator object answers a second CHALLENGE (Component reuses its authenticators for every reconnect) whose KDF parameters differ
    from the first in one field: the second proof is derived from the second challenge's parameters, nothing of the first exchange survives"""
    from autobahn.wamp import types
    uf, auth = _install(sx)
    import os
    from symx.env import ModProxy
    auth.os = ModProxy(os, urandom=lambda n: bytes(range(n)))

    class Sess:
        class log:
            @staticmethod
            def error(*a, **k):
                pass
            info = error
    a = auth.AuthScram(authid="joe", password="pw")
    nonce = a.authextra["nonce"]
    base = {"nonce": nonce + "srv", "kdf": "argon2id-13", "salt": "c2FsdHNhbHQ=", "iterations": 4096, "memory": 512}
    second = dict(base)
    if vary == "memory":
        second["memory"] = 1024
    elif vary == "iterations":
        second["iterations"] = 8192
    elif vary == "salt":
        second["salt"] = "b3RoZXJzYWx0"
    elif vary == "nonce":
        second["nonce"] = nonce + "other"
    proofs = []
    for extra in (base, second):
        n0 = len(uf.calls)
        try:
            proofs.append(a.on_challenge(Sess, types.Challenge("scram", dict(extra))))
        except Exception as e:  # noqa
            sx.fail("on_challenge-raises-for-a-valid-CHALLENGE", info=dict(vary=vary, exc=repr(e)))
            return ["exc"]
        # the salted password in use is the KDF output FOR THIS challenge's salt and cost parameters (a cache is fine as long as it is keyed by all of them)
        import base64
        salt = base64.b64decode(extra["salt"])
        kd = [c for c in uf.calls if c[0] == "argon2id" and bytes(c[1][1]) == salt and c[1][2] == extra["iterations"] and c[1][3] == extra["memory"]]
        info = dict(vary=vary, exchange=len(proofs), kdf_calls_with_these_parameters=len(kd))
        ck = [c for c in uf.calls[n0:] if c[0] == "hmac-sha256" and bytes(c[1][1]) == b"Client Key"]
        sx.check(len(ck) == 1, "ClientKey-computed-for-this-exchange", info=info)
        if ck:
            used = ck[0][1][0]
            ok = False
            for c in kd:
                want = _b64(sx, c[2])[:43]
                # the code keeps the hash field of the PHC string (unpadded base64 text of the raw hash) as the salted password
                ok = ok or (used is a._salted_password and len(used) == 43 and bool(used == want))
            sx.check(ok, "salted-password==KDF(password, this-challenges-salt-and-cost-parameters)", info=info)
        am = a._auth_message
        sx.check(bytes(am).count(extra["nonce"].encode()) == 2 and ("i=%d" % extra["iterations"]).encode() in bytes(am), "auth-message-of-this-exchange", info=info)
    sx.cover("scram:twice")
    return [vary]


def _tostr(b):
    from symx.core import mkstr
    return mkstr(list(b.items)) if hasattr(b, "items") else bytes(b).decode("ascii")


def cryptosign(sx, bound):
    from autobahn.wamp import types
    from autobahn.wamp import cryptosign as cs
    from symx.core import mkstr
    ch = sx.bytes("challenge", 32)
    cid = sx.bytes("channel", 32)
    hexd = "0123456789abcdef"
    hx = []
    for b in ch:
        for nib in ((b >> 4) & 15, b & 15):
            hx.append(sx.ite(nib < 10, nib + 48, nib + 87))
    challenge = types.Challenge("cryptosign", {"challenge": mkstr(hx)})
    fn = cs._format_challenge if hasattr(cs, "_format_challenge") else None
    if fn is None:
        for name in dir(cs):
            obj = getattr(cs, name)
            if hasattr(obj, "_format_challenge"):
                fn = obj._format_challenge
                break
    data = fn(challenge, cid if bound else None, "tls-unique" if bound else None)
    if bound:
        sx.check(len(data) == 32 and bool(sx.And(*[data[i] == (ch[i] ^ cid[i]) for i in range(32)])), "signed-data==challenge XOR channel-id (all 64 octets)")
        sx.cover("cryptosign:bound")
    else:
        sx.check(data == ch, "signed-data==challenge when there is no channel binding")
        sx.cover("cryptosign:unbound")
    return [bound]


def cryptosign_sign(sx, late, fw="twisted"):
    """what the authenticator hands to the session for AUTHENTICATE: hex(signature) + hex(signed data), as text, for every 64-octet signature
    and every 32 octets of data, whether the signer answers at once or later - on the networking framework in use"""
    import txaio
    from autobahn.wamp import cryptosign as cs
    from symx.core import mkstr
    loop = None
    if fw == "asyncio":
        from . import wslib
        loop = wslib.setup_asyncio()
    sig = sx.bytes("sig", 64)
    data = sx.bytes("data", 32)
    pending = []

    def signer(d):
        f = txaio.create_future()
        if late:
            pending.append(f)
        else:
            txaio.resolve(f, sig)
        return f
    out = []
    res = cs._sign_challenge(data, signer)
    txaio.add_callbacks(res, lambda v: out.append(v), lambda f: out.append(("err", f)))
    if loop is not None:
        wslib.run_loop(loop)
    if late:
        sx.check(not out, "nothing-resolved-before-the-signer-answered", info=dict(fw=fw))
        txaio.resolve(pending[0], sig)
        if loop is not None:
            wslib.run_loop(loop)
    info = dict(fw=fw, late=late, got_type=type(out[0]).__name__ if out else None)
    sx.check(len(out) == 1, "signature-future-resolves-once", info=info)
    if out:
        v = out[0]
        hx = []
        for b in list(sig) + list(data):
            for nib in ((b >> 4) & 15, b & 15):
                hx.append(sx.ite(nib < 10, nib + 48, nib + 87))
        sx.check(isinstance(v, str) or (sx.is_sym(v) and hasattr(v, "items") and not isinstance(v, (bytes, bytearray)) and type(v).__name__ == "SymStr"),
                 "AUTHENTICATE-signature-is-text", info=info)
        sx.check(len(v) == 192 and v == mkstr(hx), "AUTHENTICATE-signature==hex(signature)+hex(signed-data)", info=info)
    sx.cover("cryptosign:signed")
    return [fw, late]


def units(tier):
    U = [("totp", "totp", dict(), dict(weight=5)), ("totp-check", "totp_check", dict(), dict(weight=5)), ("totp-lemma", "step_lemma", dict())]
    q = tier == "quick"
    U.append(("cra/plain", "cra", dict(salted=False, keylen=32)))
    for kl in ((16, 32, 57, 58, 64, 96) if q else range(1, 129, 3)):
        U.append(("cra/salted/%d" % kl, "cra", dict(salted=True, keylen=kl), dict(weight=2)))
    for kdf in ("pbkdf2", "argon2id-13"):
        U.append(("scram/%s" % kdf, "scram", dict(kdf=kdf, phase="full"), dict(weight=5)))
    for vary in ("memory", "iterations", "salt", "nonce"):
        U.append(("scram/twice/%s" % vary, "scram_twice", dict(vary=vary)))
    U.append(("scram/no-challenge", "scram", dict(kdf="pbkdf2", phase="no-challenge")))
    U.append(("scram/no-signature", "scram", dict(kdf="argon2id-13", phase="no-signature")))
    for b in (True, False):
        U.append(("cryptosign/%s" % ("bound" if b else "unbound"), "cryptosign", dict(bound=b), dict(weight=3)))
    for late in (False, True):
        U.append(("cryptosign/sign/tw/%s" % ("late" if late else "now"), "cryptosign_sign", dict(late=late)))
        U.append(("cryptosign/sign/aio/%s" % ("late" if late else "now"), "cryptosign_sign", dict(late=late, fw="asyncio"), dict(framework="asyncio")))
    return U
