"""C04  Each WAMP request completes exactly once with its own reply."""
from . import wamplib

PID = "C04"
FUNCTIONS = [
    "autobahn.wamp.protocol: ApplicationSession.publish / call / subscribe / register / _unsubscribe / _unregister",
    "autobahn.wamp.protocol: ApplicationSession.onMessage branches Published / Subscribed / Unsubscribed / Result (final + progressive) / Registered / Unregistered / Error (+ Event / Invocation as interleaved noise)",
    "autobahn.wamp.protocol: BaseSession._exception_from_message",
    "autobahn.util: IdGenerator.next",
    "autobahn.wamp.types: PublishOptions / CallOptions / SubscribeOptions / RegisterOptions .message_attr",
    "autobahn.wamp.message: Call / Publish / Subscribe / Unsubscribe / Register / Unregister / Result / Error ... constructors (instrumented, executed with symbolic ids)",
    "autobahn.wamp.request: request records, Subscription.unsubscribe, Registration.unregister",
]
STUBS = ["transport -> recording ITransport whose send() can be told to raise SerializationError", "Twisted Deferreds are the real ones (callbacks run synchronously)", "loggers -> empty bodies"]
ASSUMPTIONS = [
    "Twisted back-end (real Deferreds); asyncio Futures need a running loop and are outside the symbolic claim",
    "router messages are constructed as message objects (parsing is C08); request ids in router messages are free integers 0..2^53, message kinds/payload shapes come from menus",
    "real transports are C10/C13, encrypted payloads C20",
]
BOUNDS = {
    "quick": "<= 5 outstanding requests of different kinds (call, call with progress+details, acknowledged publish, subscribe, register, unsubscribe, unregister) x 2 router messages, each of 10 kinds with a free request id (0..2^53), error request-type from all 6 kinds, 5 payload shapes; request construction with option objects (free timeout / concurrency integers); IdGenerator one inductive step from an arbitrary state",
    "thorough": "as quick plus 7 outstanding requests x 2 router messages, and 3 router messages (all 10 kinds each, third message with 2 payload shapes) for the two 4-request sets",
}
EXPECT_COVERS = ["req:object-options", "req:options", "complete:ok", "complete:err", "progress", "unknown-id:ProtocolError", "wrong-type:ProtocolError", "noise:event", "idgen:wrap", "idgen:step", "req:faithful", "send-fails"]
BUDGET = {"quick": dict(wall_s=300, max_paths=30000, diff_samples=4), "thorough": dict(wall_s=2400, max_paths=400000)}

KINDS = ["call", "callp", "publish", "subscribe", "register", "unsubscribe", "unregister"]
RTYPES = ["result", "result-progress", "published", "subscribed", "unsubscribed", "registered", "unregistered", "error", "event", "invocation"]
SHAPES = ["none", "args1", "args2", "kwargs", "args+kwargs"]
SHAPES_SHORT = ["none", "args+kwargs"]


def _payload(shape):
    if shape == "none":
        return None, None
    if shape == "args1":
        return [7], None
    if shape == "args2":
        return [7, 8], None
    if shape == "kwargs":
        return None, {"k": 1}
    return [7], {"k": 1}


def _expected_result(shape, details):
    """what a final RESULT with this payload shape must resolve the call with"""
    args, kwargs = _payload(shape)
    if kwargs or details:
        return ("CallResult", tuple(args or ()), dict(kwargs or {}))
    if args:
        if len(args) > 1:
            return ("CallResult", tuple(args), {})
        return ("value", args[0])
    return ("value", None)


def _same_result(got, exp):
    from autobahn.wamp.types import CallResult
    if exp[0] == "value":
        return (not isinstance(got, CallResult)) and got == exp[1]
    return isinstance(got, CallResult) and tuple(got.results) == exp[1] and dict(got.kwresults) == exp[2]


def history(sx, kinds, L, details, first=None):
    from autobahn.wamp import message, types
    from autobahn.wamp.exception import ProtocolError, ApplicationError
    clock, trace, s, t = wamplib.joined_session(sx)
    fired = []
    pend = {}       # name -> dict(kind, id, outcome, progress list)
    nsent0 = len(t.sent)
    # pre-existing subscription / registration for the unsubscribe / unregister requests
    sub = reg = None
    if "unsubscribe" in kinds:
        d = s.subscribe(lambda *a, **k: None, "com.pre.topic")
        s.onMessage(message.Subscribed(t.sent[-1].request, 500))
        sub = d.result
    if "unregister" in kinds:
        d = s.register(lambda *a, **k: None, "com.pre.proc")
        s.onMessage(message.Registered(t.sent[-1].request, 600))
        reg = d.result
    base = len(t.sent)
    first_id = t.sent[-1].request + 1 if len(t.sent) > nsent0 else 1
    for i, kind in enumerate(kinds):
        name = "%s#%d" % (kind, i)
        prog = []
        if kind == "call":
            d = s.call("com.proc%d" % i, 1, 2, x=3)
        elif kind == "callp":
            d = s.call("com.proc%d" % i, options=types.CallOptions(on_progress=(lambda prog: (lambda *a, **k: prog.append((a, k))))(prog), details=details))
        elif kind == "publish":
            d = s.publish("com.topic%d" % i, "hello", options=types.PublishOptions(acknowledge=True))
        elif kind == "subscribe":
            d = s.subscribe(lambda *a, **k: None, "com.topic%d" % i)
        elif kind == "register":
            d = s.register(lambda *a, **k: None, "com.proc%d" % i)
        elif kind == "unsubscribe":
            d = sub.unsubscribe()
        elif kind == "unregister":
            d = reg.unregister()
        m = t.sent[-1]
        pend[name] = dict(kind=kind, id=m.request, out=wamplib.Outcome(name, d, fired), prog=prog, live=True)
    # ---- one request message per call, sequential fresh ids
    reqs = t.sent[base:]
    sx.check(len(reqs) == len(kinds), "exactly-one-request-message-per-api-call")
    for j, m in enumerate(reqs):
        sx.check(m.request == first_id + j, "request-ids-sequential", info=dict(j=j, got=m.request))
    want_cls = dict(call=message.Call, callp=message.Call, publish=message.Publish, subscribe=message.Subscribe, register=message.Register,
                    unsubscribe=message.Unsubscribe, unregister=message.Unregister)
    for m, kind in zip(reqs, kinds):
        sx.check(isinstance(m, want_cls[kind]), "request-message-type", info=kind)
    log = []
    REQ_OF = dict(call=message.Call.MESSAGE_TYPE, callp=message.Call.MESSAGE_TYPE, publish=message.Publish.MESSAGE_TYPE,
                  subscribe=message.Subscribe.MESSAGE_TYPE, register=message.Register.MESSAGE_TYPE,
                  unsubscribe=message.Unsubscribe.MESSAGE_TYPE, unregister=message.Unregister.MESSAGE_TYPE)
    ACCEPTS = {"result": ("call", "callp"), "result-progress": ("call", "callp"), "published": ("publish",), "subscribed": ("subscribe",),
               "unsubscribed": ("unsubscribe",), "registered": ("register",), "unregistered": ("unregister",)}
    for step in range(L):
        if step == 0 and first is not None:
            rt = RTYPES[first]            # thorough tier: the first router message kind is a unit parameter (work split)
        else:
            rt = RTYPES[sx.choice("rtype%d" % step, len(RTYPES))]
        rid = sx.int("rid%d" % step, 0, 2 ** 53)
        shape = "none"
        etype = None
        if rt in ("result", "result-progress", "error"):
            shapes = SHAPES if (L < 3 or step < 2) else SHAPES_SHORT
            shape = shapes[sx.choice("shape%d" % step, len(shapes))]
        args, kwargs = _payload(shape)
        if rt == "result":
            m = message.Result(rid, args=args, kwargs=kwargs)
        elif rt == "result-progress":
            m = message.Result(rid, args=args, kwargs=kwargs, progress=True)
        elif rt == "published":
            m = message.Published(rid, 9000 + step)
        elif rt == "subscribed":
            m = message.Subscribed(rid, 700 + step)
        elif rt == "unsubscribed":
            m = message.Unsubscribed(rid)
        elif rt == "registered":
            m = message.Registered(rid, 800 + step)
        elif rt == "unregistered":
            m = message.Unregistered(rid)
        elif rt == "error":
            etypes = [48, 16, 32, 34, 64, 66]
            etype = etypes[sx.choice("etype%d" % step, len(etypes))]
            m = message.Error(etype, rid, "com.myapp.error%d" % step, args=args, kwargs=kwargs)
        elif rt == "event":
            m = message.Event(500 if sub is not None and sub.active else 501, 9100 + step, args=[1])
        else:
            m = message.Invocation(rid, 600 if reg is not None and reg.active else 601, args=[1])
        before = len(fired)
        nprog = {n: len(p["prog"]) for n, p in pend.items()}
        exc = None
        try:
            s.onMessage(m)
        except ProtocolError as e:
            exc = e
        except Exception as e:  # noqa
            # a progressive RESULT for a call that never asked for progress is a router error whose handling the
            # property leaves open; everything else must not raise anything but ProtocolError
            unsolicited = rt == "result-progress" and not any(p["kind"] == "callp" and p["live"] and bool(rid == p["id"]) for p in pend.values())
            if not unsolicited:
                sx.fail("only-ProtocolError-may-escape-onMessage", info="%s: %r in step %s" % (type(e).__name__, e, rt))
                return ["exc", type(e).__name__]
            sx.check(len(fired) == before, "unsolicited-progress-completes-nothing")
            log.append((rt, "unsolicited-progress", type(e).__name__))
            continue
        newly = fired[before:]
        progressed = [n for n, p in pend.items() if len(p["prog"]) > nprog[n]]
        info = dict(step=step, rtype=rt, shape=shape, etype=etype, newly=newly, progressed=progressed, exc=repr(exc))
        log.append((rt, shape, etype, newly, progressed, type(exc).__name__ if exc else None))
        if rt in ("event", "invocation"):
            sx.check(len(newly) == 0 and not progressed, "noise-completes-nothing", info=info)
            sx.cover("noise:event")
            continue
        # candidates: live pending requests whose kind matches the reply type
        if rt == "error":
            cands = [n for n, p in pend.items() if p["live"] and REQ_OF[p["kind"]] == etype]
        else:
            cands = [n for n, p in pend.items() if p["live"] and p["kind"] in ACCEPTS[rt]]
        sx.check(len(newly) + len(progressed) <= 1, "at-most-one-request-affected-per-reply", info=info)
        touched = (newly + progressed)
        if touched:
            n = touched[0]
            p = pend[n]
            sx.check(n in cands, "reply-completes-only-a-request-of-matching-type", info=info)
            sx.check(rid == p["id"], "reply-matched-by-its-own-request-id", info=info)
            sx.check(exc is None, "matched-reply-raises-nothing", info=info)
            if progressed:
                sx.check(rt == "result-progress" and p["kind"] == "callp", "progress-only-to-own-progress-handler", info=info)
                sx.cover("progress")
            else:
                p["live"] = False
                res = p["out"].results
                sx.check(len(res) == 1, "completed-exactly-once", info=info)
                # an interim (progressive) result is not the reply: whether or not the call asked for progress, only the final RESULT or an ERROR completes it
                sx.check(rt != "result-progress", "progressive-result-never-completes-a-call", info=info)
                if rt == "error":
                    ok = res[0][0] == "err" and isinstance(res[0][1], ApplicationError) and res[0][1].error == m.error \
                        and tuple(res[0][1].args) == tuple(args or ()) and dict(res[0][1].kwargs) == dict(kwargs or {})
                    sx.check(ok, "error-reply-delivered-as-its-error", info=info)
                    sx.cover("complete:err")
                else:
                    sx.check(res[0][0] == "ok", "success-reply-resolves", info=info)
                    if rt == "result":
                        sx.check(_same_result(res[0][1], _expected_result(shape, details and p["kind"] == "callp")), "result-content", info=info)
                    elif rt == "published":
                        sx.check(res[0][1].id == m.publication, "publication-id", info=info)
                    elif rt == "subscribed":
                        sx.check(res[0][1].id == m.subscription, "subscription-id", info=info)
                    elif rt == "registered":
                        sx.check(res[0][1].id == m.registration, "registration-id", info=info)
                    sx.cover("complete:ok")
        else:
            if rt == "result-progress" and exc is None:
                # a progressive result for a call without progress handler is dropped silently: must still be its own id
                own = [n for n in cands if pend[n]["kind"] == "call"]
                sx.check(sx.Or(*[rid == pend[n]["id"] for n in own]) if own else False, "silent-progress-only-for-a-pending-call", info=info)
                continue
            if rt == "unregistered" and exc is None:
                sx.check(False, "unmatched-unregistered-must-raise", info=info)
                continue
            sx.check(isinstance(exc, ProtocolError), "unmatched-reply=>ProtocolError", info=info)
            # really unmatched: the id equals no live request of the matching type
            for n in cands:
                sx.check(rid != pend[n]["id"], "ProtocolError-only-when-no-pending-request-matches", info=dict(info, cand=n))
            sx.cover("unknown-id:ProtocolError" if cands else "wrong-type:ProtocolError")
    for n, p in pend.items():
        sx.check(len(p["out"].results) <= 1, "never-completed-twice", info=n)
    return [log]


def faithful(sx, which):
    """request messages carry the given URI, arguments and options (free integers for numeric options)"""
    from autobahn.wamp import message, types
    clock, trace, s, t = wamplib.joined_session(sx)
    if which == "call":
        tmo = sx.int("timeout", 1, 2 ** 31)
        d = s.call("com.myapp.proc", 1, "two", k=3, options=types.CallOptions(timeout=tmo, details=True, on_progress=lambda *a, **k: None))
        m = t.sent[-1]
        ok = sx.And(m.procedure == "com.myapp.proc", list(m.args) == [1, "two"], m.kwargs == {"k": 3}, m.timeout == tmo, m.receive_progress is True)
    elif which == "call-noopts":
        d = s.call("com.myapp.proc")
        m = t.sent[-1]
        ok = m.procedure == "com.myapp.proc" and not m.args and not m.kwargs and m.timeout is None and not m.receive_progress
    elif which == "publish":
        d = s.publish("com.myapp.topic", 1, k=2, options=types.PublishOptions(acknowledge=True, exclude_me=False, exclude=[5, 6], eligible=[7], retain=True,
                                                                                 exclude_authid=["a"], eligible_authrole=["r"]))
        m = t.sent[-1]
        ok = (m.topic == "com.myapp.topic" and list(m.args) == [1] and m.kwargs == {"k": 2} and m.acknowledge is True and m.exclude_me is False
              and list(m.exclude) == [5, 6] and list(m.eligible) == [7] and m.retain is True and list(m.exclude_authid) == ["a"] and list(m.eligible_authrole) == ["r"])
    elif which == "publish-unack":
        d = s.publish("com.myapp.topic", 1)
        m = t.sent[-1]
        ok = d is None and m.topic == "com.myapp.topic" and not m.acknowledge and len(s._publish_reqs) == 0 if hasattr(s, "_publish_reqs") else True
    elif which == "subscribe":
        d = s.subscribe(lambda: None, "com.myapp", options=types.SubscribeOptions(match="prefix", get_retained=True))
        m = t.sent[-1]
        ok = m.topic == "com.myapp" and m.match == "prefix" and m.get_retained is True
    else:
        conc = sx.int("concurrency", 1, 2 ** 31)
        d = s.register(lambda: None, "com.myapp.proc", options=types.RegisterOptions(match="prefix", invoke="roundrobin", concurrency=conc, force_reregister=True))
        m = t.sent[-1]
        ok = sx.And(m.procedure == "com.myapp.proc", m.match == "prefix", m.invoke == "roundrobin", m.concurrency == conc, m.force_reregister is True)
    sx.check(ok, "request-carries-uri-args-options-faithfully", info=which)
    sx.check(m.request == 1, "first-request-id-is-1")
    sx.cover("req:faithful")
    return [which]


# option -> (values to try, WAMP default: a value equal to the default may be left off the wire)
OPTION_SWEEP = {
    "publish": dict(acknowledge=([True, False], False), exclude_me=([True, False], True), retain=([True, False], False),
                    exclude=([[], [5], [5, 6], 5], []), exclude_authid=([[], ["a"], "a"], []), exclude_authrole=([[], ["r"], "r"], []),
                    eligible=([[], [7], [7, 8], 7], None), eligible_authid=([[], ["a"], "a"], None), eligible_authrole=([[], ["r"], "r"], None)),
    "subscribe": dict(match=(["exact", "prefix", "wildcard"], "exact"), get_retained=([True, False], False)),
    "register": dict(match=(["exact", "prefix", "wildcard"], "exact"), invoke=(["single", "first", "last", "roundrobin", "random"], "single"),
                     force_reregister=([True, False], False)),
    "call": dict(details=([True, False], "n/a")),
}


def option_sweep(sx, kind, opt):
    """one option at a time, every admissible value including the falsy ones (False, [], scalars): the request message says what the caller said"""
    from autobahn.wamp import types
    values, default = OPTION_SWEEP[kind][opt]
    out = []
    for v in values:
        clock, trace, s, t = wamplib.joined_session(sx)
        n0 = len(t.sent)
        try:
            if kind == "publish":
                s.publish("com.myapp.topic", 1, options=types.PublishOptions(**{opt: v}))
            elif kind == "subscribe":
                s.subscribe(lambda: None, "com.myapp.topic", options=types.SubscribeOptions(**{opt: v}))
            elif kind == "register":
                s.register(lambda: None, "com.myapp.proc", options=types.RegisterOptions(**{opt: v}))
            else:
                s.call("com.myapp.proc", options=types.CallOptions(**{opt: v}))
        except Exception as e:  # noqa
            sx.fail("api-call-with-an-admissible-option-value-raises", info=dict(kind=kind, option=opt, given=repr(v), exc=repr(e)))
            continue
        sx.check(len(t.sent) == n0 + 1, "exactly-one-request-message-per-api-call", info=dict(kind=kind, option=opt, given=repr(v)))
        if len(t.sent) != n0 + 1:
            continue
        m = t.sent[-1]
        if default == "n/a":
            continue
        got = getattr(m, opt)
        want = [v] if opt != "exclude_me" and opt.startswith(("exclude", "eligible")) and not isinstance(v, list) else v
        same = (list(got) == list(want)) if isinstance(want, list) and got is not None else (got == want)
        sx.check(same or (got is None and want == default), "request-carries-the-option-value-(falsy-values-included)", info=dict(kind=kind, option=opt, given=repr(v), on_wire=repr(got)))
        out.append(repr(got))
    sx.cover("req:options")
    return out


def object_form(sx, which):
    """subscribe(obj) / register(obj) on an object with several decorated methods: one request per method,
    each with its own fresh id; replies in either order complete their own request"""
    from autobahn import wamp
    from autobahn.wamp import message
    clock, trace, s, t = wamplib.joined_session(sx)
    calls = []

    class Obj:
        @wamp.subscribe("com.myapp.topic1")
        def on1(self, *a, **k):
            calls.append(("on1", a))

        @wamp.subscribe("com.myapp.topic2")
        def on2(self, *a, **k):
            calls.append(("on2", a))

        @wamp.register("com.myapp.proc1")
        def p1(self, *a, **k):
            return "p1"

        @wamp.register("com.myapp.proc2")
        def p2(self, *a, **k):
            return "p2"

    base = len(t.sent)
    d0 = s.call("com.other")                   # an unrelated outstanding request
    d = s.subscribe(Obj()) if which == "subscribe" else s.register(Obj())
    reqs = t.sent[base + 1:]
    sx.check(len(reqs) == 2, "one-request-per-decorated-method", info=which)
    ids = [m.request for m in reqs]
    sx.check(ids == [2, 3], "fresh-sequential-request-ids", info=dict(ids=ids))
    uris = sorted((m.topic if which == "subscribe" else m.procedure) for m in reqs)
    sx.check(uris == (["com.myapp.topic1", "com.myapp.topic2"] if which == "subscribe" else ["com.myapp.proc1", "com.myapp.proc2"]), "decorated-uris-requested")
    out = []
    d.addCallback(out.append)
    order = sx.choice("order", 2)
    seq = reqs if order == 0 else list(reversed(reqs))
    try:
        for k, m in enumerate(seq):
            if which == "subscribe":
                s.onMessage(message.Subscribed(m.request, 1000 + m.request))
            else:
                s.onMessage(message.Registered(m.request, 2000 + m.request))
    except Exception as e:  # noqa
        sx.fail("replies-to-object-form-requests-accepted", info=repr(e))
        return ["exc"]
    sx.check(len(out) == 1 and len(out[0]) == 2, "gathered-result-completes-with-both", info=repr(out))
    if len(out) == 1 and len(out[0]) == 2:
        got = sorted((x.id, x.topic if which == "subscribe" else x.procedure) for x in out[0])
        want = sorted(((1000 if which == "subscribe" else 2000) + m.request, m.topic if which == "subscribe" else m.procedure) for m in reqs)
        sx.check(got == want, "each-reply-bound-to-its-own-request", info=dict(got=got, want=want))
    sx.check(not d0.called, "unrelated-request-untouched")
    if which == "subscribe":
        # events reach the handler of their own subscription
        for m in reqs:
            s.onMessage(message.Event(1000 + m.request, 77, args=[m.topic]))
        sx.check(sorted(calls) == [("on1", ("com.myapp.topic1",)), ("on2", ("com.myapp.topic2",))], "events-reach-own-handlers", info=repr(calls))
    sx.cover("req:faithful")
    return [which, order]


def object_options(sx, which):
    """subscribe(obj) / register(obj): four decorated methods, each with or without options of its own in the decorator (free choice per
    method), with or without call-level default options: every request carries ITS method's options (else the call-level ones, else none)"""
    from autobahn import wamp
    from autobahn.wamp import message, types
    clock, trace, s, t = wamplib.joined_session(sx)
    has = [sx.flag("own%d" % i) for i in range(4)]
    call_level = sx.flag("call_level")
    calls = []
    if which == "subscribe":
        own = [types.SubscribeOptions(match="prefix", details_arg="details"), types.SubscribeOptions(match="wildcard", get_retained=True),
               types.SubscribeOptions(match="prefix", get_retained=True), types.SubscribeOptions(match="wildcard", details_arg="det")]
        dflt = types.SubscribeOptions(match="exact", get_retained=True) if call_level else None
        deco = wamp.subscribe
    else:
        own = [types.RegisterOptions(match="prefix", invoke="roundrobin", concurrency=4), types.RegisterOptions(match="wildcard", invoke="first"),
               types.RegisterOptions(match="prefix", invoke="last", force_reregister=True), types.RegisterOptions(invoke="random", concurrency=2)]
        dflt = types.RegisterOptions(match="exact", invoke="single", concurrency=9) if call_level else None
        deco = wamp.register

    def mk(i):
        def h(self, *a, **k):
            calls.append((i, a, sorted(k)))
        h.__name__ = "m%d" % i
        return deco("com.myapp.u%d" % i, options=own[i] if has[i] else None)(h)
    Obj = type("Obj", (), {"m%d" % i: mk(i) for i in range(4)})
    base = len(t.sent)
    try:
        d = s.subscribe(Obj(), options=dflt) if which == "subscribe" else s.register(Obj(), options=dflt)
    except Exception as e:  # noqa
        sx.fail("object-form-raises", info=dict(which=which, has=has, call_level=call_level, exc=repr(e)))
        return ["exc"]
    reqs = t.sent[base:]
    info = dict(which=which, has=has, call_level=call_level)
    sx.check(len(reqs) == 4, "one-request-per-decorated-method", info=info)
    for m in reqs:
        uri = m.topic if which == "subscribe" else m.procedure
        i = int(uri[-1])
        eff = own[i] if has[i] else dflt
        attrs = ("match", "get_retained") if which == "subscribe" else ("match", "invoke", "concurrency", "force_reregister")
        for a in attrs:
            want = getattr(eff, a, None) if eff is not None else None
            got = getattr(m, a)
            dflts = dict(match="exact", invoke="single")
            ok = got == want or (want is None and got == dflts.get(a)) or (got is None and want == dflts.get(a))
            sx.check(ok, "request-carries-its-own-methods-options", info=dict(info, method=i, attr=a, got=repr(got), want=repr(want)))
    if which == "subscribe" and len(reqs) == 4:
        for m in reqs:
            s.onMessage(message.Subscribed(m.request, 1000 + m.request))
        for m in reqs:
            s.onMessage(message.Event(1000 + m.request, 77, args=[m.topic]))
        for i in range(4):
            mine = [c for c in calls if c[0] == i]
            eff = own[i] if has[i] else dflt
            want_kw = [eff.details_arg] if eff is not None and getattr(eff, "details_arg", None) else []
            sx.check(len(mine) == 1 and mine[0][1] == ("com.myapp.u%d" % i,) and mine[0][2] == want_kw, "event-reaches-its-handler-with-the-details-argument-it-asked-for",
                     info=dict(info, method=i, calls=repr(mine)))
    sx.cover("req:object-options")
    return [which, has, call_level]


def send_fails(sx, kind):
    """a request whose send() raises is removed from the pending table and the error propagates"""
    from autobahn.wamp import types
    from autobahn.wamp.exception import SerializationError
    clock, trace, s, t = wamplib.joined_session(sx)
    t.fail_next = SerializationError("cannot serialize")
    raised = False
    try:
        if kind == "call":
            s.call("com.p", object())
        else:
            s.publish("com.t", object(), options=types.PublishOptions(acknowledge=True))
    except SerializationError:
        raised = True
    sx.check(raised, "send-failure-propagates-to-caller")
    tables = [getattr(s, n) for n in ("_call_reqs", "_publish_reqs") if hasattr(s, n)]
    sx.check(all(len(x) == 0 for x in tables), "failed-request-not-left-pending")
    # the id generator moved on: the next request gets a fresh id and completes normally
    from autobahn.wamp import message
    d = s.call("com.q")
    m = t.sent[-1]
    out = []
    d.addCallback(out.append)
    s.onMessage(message.Result(m.request, args=[5]))
    sx.check(out == [5], "next-request-after-failed-send-works")
    sx.cover("send-fails")
    return [kind]


def idgen(sx):
    """one inductive step from an arbitrary generator state: ids stay in 1..2^53 and are sequential with wrap-around"""
    from autobahn.util import IdGenerator
    g = IdGenerator()
    st = sx.int("state", 0, 2 ** 53)
    g._next = st
    a = g.next()
    sx.check(sx.And(a >= 1, a <= 2 ** 53), "id-within-1..2^53")
    sx.check(sx.Or(a == st + 1, sx.And(st == 2 ** 53, a == 1)), "id-is-successor-with-wraparound")
    b = g.next()
    sx.check(sx.And(b >= 1, b <= 2 ** 53, b != a), "next-id-differs")
    if bool(st == 2 ** 53):
        sx.cover("idgen:wrap")
    else:
        sx.cover("idgen:step")
    g2 = IdGenerator()
    sx.check(g2.next() == 1, "fresh-generator-starts-at-1")
    return []


def units(tier):
    U = []
    q = tier == "quick"
    sets = [["call", "callp", "publish", "subscribe"], ["call", "register", "unsubscribe", "unregister"], ["callp", "call", "register", "subscribe", "publish"],
            ["subscribe", "subscribe", "call"]]
    if not q:
        sets.append(KINDS)
    for si, ks in enumerate(sets):
        for details in (False, True):
            U.append(("hist/%s/%s" % ("+".join(ks), "details" if details else "-"), "history", dict(kinds=ks, L=2, details=details), dict(weight=5)))
            if not q and si < 2:
                for first in range(len(RTYPES)):
                    U.append(("hist3/%s/%s/first=%s" % ("+".join(ks), "details" if details else "-", RTYPES[first]), "history",
                              dict(kinds=ks, L=3, details=details, first=first), dict(weight=9)))
    for w in ("call", "call-noopts", "publish", "publish-unack", "subscribe", "register"):
        U.append(("faithful/" + w, "faithful", dict(which=w)))
    for kind, opts in OPTION_SWEEP.items():
        for opt in opts:
            U.append(("options/%s/%s" % (kind, opt), "option_sweep", dict(kind=kind, opt=opt)))
    for k in ("call", "publish"):
        U.append(("sendfails/" + k, "send_fails", dict(kind=k)))
    for w in ("subscribe", "register"):
        U.append(("objform/" + w, "object_form", dict(which=w)))
        U.append(("objopts/" + w, "object_options", dict(which=w), dict(weight=3)))
    U.append(("idgen", "idgen", dict()))
    return U
